#!/venv/bin/python
"""Regenerate /verif/MANIFEST.json from the property modules that exist."""
import json, os, sys
ROOT = os.path.dirname(os.path.dirname(os.path.abspath(__file__)))
sys.path.insert(0, os.path.join(ROOT, "sim")); sys.path.insert(0, os.path.join(ROOT, "sim", "stubs"))

NA = {
 "C02": "pure function text -> circuit (quantifier inputs/programs only): no schedule, peer, fault, history or order-dependent artifact for a simulator to own; not a simulation target (DESIGN.md section 4)",
 "C12": "pure graph queries of one argument (quantifier inputs only); nothing nondeterministic or stateful to simulate",
 "C13": "pure generators and bit helpers (quantifier inputs only); nothing nondeterministic or stateful to simulate",
 "C14": "pure differential of two parsers on one text (quantifier inputs/programs only); no seam for a simulator",
 "C20": "a pure predicate over one graph (quantifier inputs only); fault-injecting graph corruption would still be plain input generation",
}
TEXT = {
 "C01": ("seeded exploration of hash-order worlds x solver model choices; CNF model set and solve() answers compared with brute-force consistent valuations", "S1 hash world + S3 solver peer; oracle: bit-parallel consistent-valuation set"),
 "C03": ("seeded exploration of hash-order worlds (text order) and the file seam; write->read round trips compared structurally and functionally", "S1 hash world + S5 SimFS; oracle: reference evaluation + structural equality"),
 "C04": ("seeded exploration of circuit pairs x endpoint/startpoint subsets x hash worlds x solver choices; miter output compared with the reference difference function", "S1 + S3; oracle: truth tables of both circuits"),
 "C05": ("seeded exploration of hash-order worlds (operand grouping order) and of chained earlier transforms; result function compared node by node with the reference; bounded liveness of insert_registers judged with a deterministic step clock (executed source lines under sys.settrace)", "S1 + S8; oracle: truth tables, step budget"),
 "C06": ("seeded composition histories (valid and invalid calls interleaved) checked after every call against a reference that substitutes on plain dicts", "S6 histories + S1; oracle: reference substitution model, functional comparison"),
 "C07": ("seeded API histories with ~35% illegal calls; wiring invariants evaluated on the raw graph after every call including calls that raised", "S6 histories with rejected calls as faults; oracle: wiring rules I1-I9"),
 "C08": ("seeded exploration of solver enumeration orders, hash worlds and the process/file hand-off to a fake approxmc child that re-opens the DIMACS file", "S3 + S4 + S1; oracle: projected consistent-valuation counts, independent DIMACS counter"),
 "C09": ("seeded exploration of unroll configurations and hash worlds against a cycle-stepped reference state machine", "S1 + configuration swarm; oracle: explicit clocked execution"),
 "C10": ("seeded exploration of hash worlds; every ternary pattern compared with Kleene gate-by-gate evaluation", "S1; oracle: three-valued reference evaluator"),
 "C11": ("seeded exploration of solver model choices and hash worlds; transforms and analyses compared with definitions evaluated by the reference", "S3 + S1; oracle: truth-table definitions of sensitivity/influence"),
 "C15": ("seeded exploration of hash worlds (writer order, arbitrary const input) and generated bench texts; reader and writer->reader compared with the abstract netlist", "S1; oracle: reference evaluation of the abstract netlist"),
 "C16": ("seeded edit/remove_unloaded histories checked against backward reachability on the snapshot before each call", "S6 histories; oracle: liveness set"),
 "C17": ("seeded exploration of hash worlds and of the iteration order of sets of Circuit objects (identity hash drawn from the PRNG)", "S1 + S2; oracle: cover/topology/disjointness rules + functional re-substitution"),
 "C18": ("seeded exploration of cyclic circuits x hash worlds (feedback-set heuristic); outputs under fixed-point auxiliary values compared with brute-force stable states", "S1; oracle: brute-force stable states"),
 "C19": ("seeded call/edit histories over a pool of circuits with injected peer faults (solver, pysat import, approxmc, file system); deep snapshots of every pool member before/after each step", "S6 + S7 fault injection at S3-S5; oracle: deep snapshots"),
}
built = []
for pid in ["C01","C03","C04","C05","C06","C07","C08","C09","C10","C11","C15","C16","C17","C18","C19"]:
    if os.path.exists(os.path.join(ROOT, "sim", "cgsim", "props", pid.lower() + ".py")):
        built.append(pid)
checks = []
for pid in built:
    text, note = TEXT[pid]
    checks.append({
        "property_id": pid,
        "quick_cmd": f"./check run {pid} --tier quick",
        "thorough_cmd": f"./check run {pid} --tier thorough",
        "evidence_file": f"/verif/evidence/{pid}.json",
        "replay_cmd_template": "./check replay {path}",
        "engine": "cgsim",
        "level_claimed": {"category": "exploration", "text": text + ". Sampling, never exhaustive: a clean batch is evidence, not proof.", "design_ref": f"DESIGN.md section 4 ({pid})"},
        "level_note": "trusted base: reference models in sim/cgsim/ref.py; stubs: pysat (seeded DPLL), approxmc (exact counter behind circuitgraph.sat.subprocess/shutil), SimFS behind circuitgraph.io.open, Circuit identity hash from the PRNG; real: circuitgraph from /repo, networkx, lark, CPython sets under PYTHONHASHSEED. " + note,
        "technique": "deterministic simulation with fault injection: seeded worlds (PYTHONHASHSEED per fresh interpreter) x seeded peers (solver/approxmc/file system stubs) x seeded operation-and-fault histories x interpreter-history seams (same request served twice with the first result edited, object seen before in another state, attribute representation), reference-model oracle, ddmin + replay file that carries the history it needs",
    })
na = [{"property_id": k, "reason": v} for k, v in NA.items()]
for pid in TEXT:
    if pid not in built:
        na.append({"property_id": pid, "reason": "check not built yet in this tree (planned, DESIGN.md section 4); not claimed until it runs"})
m = {
 "version": 1,
 "setup_cmd": "./check setup",
 "hooks": {"guard": "CIRCUITGRAPH_VERIF", "enable": "no hook in /repo is needed: every seam is an existing one (PYTHONHASHSEED, lazy pysat import, module attributes circuitgraph.sat.subprocess/shutil and circuitgraph.io.open, public API); the guard variable is reserved and unused",
           "baseline_off_cmd": "cd /repo && /venv/bin/python -m pytest -ra -q -p no:cacheprovider --timeout=900 --continue-on-collection-errors",
           "source_commits": [], "add_only": True},
 "engines": [{"name": "cgsim", "path": "/verif/sim/cgsim", "serves_properties": built,
              "kind_free_text": "own deterministic simulator: worlds = fresh interpreters with seeded PYTHONHASHSEED, seeded peer stubs, seeded histories, ddmin shrinking, replay files"}],
 "checks": checks,
 "not_applicable": sorted(na, key=lambda x: x["property_id"]),
 "notes": "Exit codes of ./check: 0 held, 1 VIOLATION (line printed), 2 harness error. Known findings: /verif/known_findings.json. Genuine defects repaired in /repo as 'fix:' commits are listed there as fixed entries.",
}
json.dump(m, open(os.path.join(ROOT, "MANIFEST.json"), "w"), indent=1)
print("claimed", built)
