#!/venv/bin/python
"""Re-confirm every independently seeded change under /verif/seeded/<id>/ and (re)write its meta.json.

For each seed: scratch copy of /repo (outside /repo and /verif, removed afterwards) + patch.diff ->
 (1) the baseline test-suite passes exactly the same tests as on /repo,
 (2) demo.py exits 0 on /repo and non-zero on the patched copy,
 (3) the property's quick check (and optionally thorough) exits 1 on the patched copy.
Nothing is ever applied to /repo itself.

  tools/seed_status.py [--only C05,C06] [--tier quick] [--no-tests]
"""
import argparse
import json
import os
import shutil
import subprocess
import sys
import tempfile
import time

ROOT = os.path.dirname(os.path.dirname(os.path.abspath(__file__)))
REPO = "/repo"
PYTEST = ["/venv/bin/python", "-m", "pytest", "-q", "-p", "no:cacheprovider", "--timeout=900",
          "--continue-on-collection-errors", "-rA"]

NEEDS = {
 "C03": "behavioral=True and an xnor gate with an odd number of fan-ins (3, 5, ... or 1)",
 "C04": "a shared primary input that is also an output, tied, and the only compared endpoint(s)",
 "C05": "limit_fanin applied to the RESULT of an earlier limit_fanin with a larger k (name clash of the generated *_limit_fanin_<i> gates); which operand is lost depends on PYTHONHASHSEED",
 "C06": "a child circuit with a feed-through pin (input that is also an output) named in the connection map of add_subcircuit",
 "C07": "connecting a blackbox output to an undriven not / bb_input node (via connect, add, add_blackbox or add_subcircuit)",
 "C08": "model_count / signal_probability with no free startpoint left (all pinned by assumptions, or a constants-only cone) AND unsatisfiable constraints",
 "C09": "unroll with n >= 2 where a state output is itself a primary input whose name sorts before its paired state input",
 "C10": "a node literally named <p>_not where p feeds an or/nor gate that precedes <p>_not in node order",
 "C11": "sensitization_transform with >= 2 selected endpoints, one in the fan-in cone of another",
 "C15": "a bench text with an XOR/XNOR listing one operand 3, 5, ... times",
 "C16": "remove_unloaded(inputs=True) on a primary input that is also an output and whose only loads are dead logic",
 "C17": "two outputs sharing logic such that one output's supergate swallows a node that heads its own supergate in the other cone; shows for about half of the set orders of Circuit objects",
 "C18": "one strongly connected component with overlapping loops (>= 7 gates) whose heuristic ordering needs two backward edges on one loop",
 "C01b": "an xnor gate with exactly one fan-in",
 "C04b": "two distinct circuits, default startpoints, and a name that is a primary input of c0 but a multi-input gate of c1 (a cone cut at an internal net)",
 "C05b": "limit_fanin with k >= 3, an operand of the gate's base type that is itself observable (an output) and is popped first (hash-order dependent when only one operand qualifies)",
 "C06b": "the same connections dict object passed to two add_subcircuit calls",
 "C07b": "one add() call with both fanin and fanout where every fan-in connection is legal and the fan-out connection is rejected",
 "C08b": "approx_model_count in default mode with an assumption on an xor/xnor node",
 "C09b": "the same per-flop initial_values dict object passed to a second sequential_unroll call",
 "C10b": "a nand with a constant-1 fan-in (or nor with constant 0) and another fan-in that is X",
 "C11b": "props.sensitivity on a node whose cone has a power-of-two number of startpoints, with some valuation of sensitivity 0 and true maximum below the number of startpoints",
 "C15b": "circuit_to_bench on a circuit with a primary input that is also a primary output",
 "C16b": "remove_unloaded(inputs=False) with a constant whose only loads are dead logic; the second call then deletes it",
 "C17b": "a constant node in the cone of an output",
 "C18b": "at least two cut feedback nodes and a PYTHONHASHSEED under which two unrelated sets enumerate in different relative order",
 "C19b": "sequential_unroll with ignore_pins naming a real pin of the flop BlackBox (also when the call then raises)",
 "C03b": "a primary input that is also an output (the writer declares it twice: input then output)",
 "C01c": "an assumption that sets a dangling startpoint (unloaded input / unconnected blackbox output) to False AND a solver that returns True for that unconstrained variable",
 "C04c": "an even, non-power-of-two number of compared endpoints (6, 10, 12, ...) with the differing endpoint among the last in set-iteration order",
 "C05c": "an xor/xnor gate with more than k operands that lists a, b and xor(a, b) among them, and a hash order that pops {a, b} together (3 of 32 seeds)",
 "C06c": "two instances where one name is a substring of the other (u_r carried over next to r) and the longer one filled first",
 "C07c": "a three-call history: a driven node named <inst>_<pin> exists, add_blackbox(<inst>) with that pin connected, fill_blackbox with a model that lacks that input pin",
 "C08c": "a solver that tries 0 first (or any order in which a model's 1-startpoints are not supersets of earlier ones)",
 "C11c": "a hash order in which two equal sets enumerate differently (14 of 40 seeds) and a function asymmetric in its startpoints; only dif_out_<s>, not sen_out",
 "C16c": "a dead node whose dead load was created before it (port first, add(..., fanout=...), relabel, netlists in file order)",
 "C03c": "a blackbox instance with an unconnected pin that the writer emits BEFORE a connected one (pin order follows the hash order of the BlackBox's pin sets; 29 of 32 seeds on the demo)",
 "C09c": "add_flop_outputs=True with a per-flop initial_values dict that omits a flop instantiated before a listed one (>= 2 flops)",
 "C10c": "an and/nand gate whose fan-in list was connected in another order than its operand nodes were created, and a hash seed under which two equal fan-in sets iterate differently (10 of 32 seeds)",
 "C15c": "a constant node with a load that the writer emits before the constant's own line (16 of 32 hash seeds)",
 "C18c": "at least two feedback nodes where the one first in set order does not already drive all loads of the others (14 of 32 hash seeds on the demo)",
 "C17c": "two outputs sharing logic such that the minimal-cover filter drops a supergate that is not last in build order (list mutated while iterated); 4 of 10 hash seeds on the demo",
 "C04d": "(helper: Circuit.endpoints via a one-pass _terminals) a primary input that is also an output, default endpoints, and either that input untied or it being the only shared endpoint",
 "C05d": "(helper: Circuit.add with uid=True renaming) limit_fanin on a circuit that already contains <g>_limit_fanin_<i> helpers feeding <g>; wrong only for some pop orders",
 "C06d": "(helper: Circuit.relabel rewritten with neighbour-keyed dicts) one parent net feeding two input pins of the same blackbox instance, then fill_blackbox",
 "C09d": "(helper: Circuit.remove aborting at the first missing name) a flop type with >= 2 non-data pins and ignore_pins naming some but not all of them; which one depends on PYTHONHASHSEED",
 "C10d": "(helper: Circuit.add redefinition as input/constant removes the node first) a circuit whose gates were inserted before their input/constant fan-ins",
 "C11d": "(helper: utils.int_to_bin returning () for width 0) props.sensitivity on a functionally constant node with exactly one startpoint",
 "C16d": "(helper: Circuit.remove cascading from a 'pin' recognised by name only) a dead ordinary gate whose name sits under a blackbox instance's prefix (ff0.q_n)",
 "C01e": "THRESHOLD: xor/xnor gates with fan-in >= 7 (7, 11, 13-15, ...): balanced pairwise reduction drops a trailing partial block",
 "C05e": "THRESHOLD: a gate with at least 4k+1 fan-ins (9 for k=2): helper list merged back twice without being cleared; hash-order dependent above the threshold",
 "C07e": "THRESHOLD: the 14th add(name, uid=True) of one base name (name, name_0..name_10 and name_70 exist)",
 "C08e": "THRESHOLD: >= 10 startpoints given to approx_model_count (sampling set written in chunks of 10 that carry 9 variables each)",
 "C09e": "THRESHOLD: n >= 11 unroll iterations (io_map lists sorted as strings: _0, _1, _10, _2, ...)",
 "C10e": "THRESHOLD: gates with fan-in >= 9 that is not a multiple of 8 (companions OR-ed in groups of 8, leftover dropped)",
 "C11e": "THRESHOLD: >= 7 startpoints in the cone (popcount's in-place ripple adder loses the n&carry term, first reachable at width 7)",
 "C17e": "THRESHOLD: >= 11 nested supergate levels (levels sorted as strings: '10:..' < '1:..')",
 "C01f": "HELD-OUT: a lint-clean cyclic circuit with a 1-input inverting gate (not / 1-input nand, nor, xnor) whose only fan-in is itself",
 "C03f": "HELD-OUT: behavioral=True text whose generated gate name <op>_<a>_<b> is already taken (an input called and_a_b, two expressions spelling the same joined name, nested parity over the same operands); partly PYTHONHASHSEED dependent",
 "C04f": "HELD-OUT: two miter calls that are given the SAME explicit endpoints set/list holding exactly one endpoint (the first call empties it)",
 "C05f": "HELD-OUT: a second insert_registers call in the same interpreter (the first one leaves d/q keys in the mutable default other_flop_io)",
 "C06f": "HELD-OUT: strip_blackboxes(ignore_pins=<plain str>) where another pin name is a substring of that string (SE in RESET)",
 "C07f": "HELD-OUT: add_subcircuit(sc, inst) where <inst>_<n> exists and the first character of n occurs in '<inst>_' (u/u1, m/m, t/t)",
 "C08f": "HELD-OUT: an xor and an xnor, each with >= 3 fan-ins, whose parity chains start on the same ordered operand pair (same fan-in set: always; overlapping sets: some PYTHONHASHSEED values)",
 "C09f": "HELD-OUT: a sequential circuit with a primary input/output whose name ends in _<non-data pin> (sys_clk, div2_CK)",
 "C10f": "HELD-OUT: an and/nand gate and an or/nor gate over exactly the same fan-in set",
 "C11f": "HELD-OUT: sensitization_transform / sensitize of a primary input that is also marked as output (feed-through pin)",
 "C15f": "HELD-OUT: bench text in which a DFF's Q net is itself declared OUTPUT",
 "C16f": "HELD-OUT: a dead node with two or more loads that are all dead (dead fork)",
 "C17f": "HELD-OUT: any gate with more than two inputs in an output cone",
 "C18f": "HELD-OUT: a loop that no output depends on (unobserved latch)",
 "C19f": "HELD-OUT: a circuit whose non-output nodes carry no `output` attribute (fast Verilog reader, Circuit(graph=g)) passed to any query that calls is_output",
 "C01g": "HELD-OUT 2: solve/cnf, then an in-place change of a gate's type with unchanged wiring (set_type), then solve/cnf again on the SAME Circuit object (per-object CNF cache whose staleness test ignores types)",
 "C03g": "HELD-OUT 2: two reads in one interpreter: a behavioral text that makes the reader invent and_a_b, later any text with a net of exactly that name (reader state gate_expressions/moved never cleared)",
 "C04g": "HELD-OUT 2: explicit endpoints= and a c1 that has extra internal nets inside the compared cone (e.g. limit_fanin(c0, 2))",
 "C05g": "HELD-OUT 2: a buf with more than k loads whose driver already has k loads and is visited before the buf; PYTHONHASHSEED dependent (6 of 12 seeds on the demo)",
 "C06g": "HELD-OUT 2: fill_blackbox with an implementation that contains a non-io node without any edge (open pin of a nested blackbox, spare tie cell)",
 "C07g": "HELD-OUT 2: a connection whose fan-out side names a missing node (connect(a, nowhere); add_subcircuit/add_blackbox with an output wired to a missing net): KeyError instead of ValueError bypasses the roll-back",
 "C08g": "HELD-OUT 2: model_count with an assumption on a startpoint that drives nothing (feed-through input, unconnected blackbox output pin)",
 "C09g": "HELD-OUT 2: sequential_unroll(remove_unloaded=True) of a circuit with a primary input that is also an output and drives nothing but non-data flop pins",
 "C10g": "HELD-OUT 2: an and/nand/or/nor gate that reaches no marked output while some other node is marked as output",
 "C11g": "HELD-OUT 2: influence/avg_sensitivity/sensitization_transform with endpoints on an internal node (or with another output in its cone), then sensitize/sensitization_transform without endpoints on the same object",
 "C15g": "HELD-OUT 2: read a bench text, edit the returned circuit in place, read the same text (same name) again in the same interpreter",
 "C16g": "HELD-OUT 2: any remove_unloaded(inputs=True) followed, in the same interpreter, by remove_unloaded(inputs=False) on a circuit with unloaded inputs / pins",
 "C17g": "HELD-OUT 2: two outputs whose cones share a gate with more than two inputs, plus a look-alike helper name in one cone or a particular set order (PYTHONHASHSEED 5, 9 of 0..19)",
 "C18g": "HELD-OUT 2: a cyclic circuit with a primary input that is also an output",
 "C19g": "HELD-OUT 2: sensitization_transform / influence / avg_sensitivity with endpoints on an internal node or with another output in the endpoint's cone",
 "C01h": "HELD-OUT 3: a blackbox instance whose input pin has a driver (bb_input encoded as the negation of its driver)",
 "C03h": "HELD-OUT 3: a node whose name starts with tie_0 / tie_1 / tie_x without being one of them (tie_1_en, tie_00, tie_x2); constants in both styles, gates with behavioral=True",
 "C04h": "HELD-OUT 3: an xnor with exactly one fan-in inside the cone of a compared endpoint (sat.cnf encodes it as a buffer)",
 "C05h": "HELD-OUT 3: a constant node ('0'/'1') that drives more than k loads (limit_fanout never visits constants)",
 "C06h": "HELD-OUT 3: add_subcircuit with a LIST-valued connection for a child output ({'o0': ['x', 'y']})",
 "C07h": "HELD-OUT 3: set_output called with a list/set that contains a name which is not a node (creates a typeless node)",
 "C08h": "HELD-OUT 3: exact model_count on a circuit with a parity helper variable (xor/xnor with >= 3 operands, any xnor) under a hash order that gives a free startpoint one of the last variable ids (9 of 12 seeds on the demo)",
 "C09h": "HELD-OUT 3: tx.unroll with n >= 2 and a state pair {x: x} (an input that is also an output paired with itself)",
 "C10h": "HELD-OUT 3: a second ternary() call in the same interpreter whose or/nor operand has a companion name already seen in an earlier call (memo in a mutable default argument)",
 "C11h": "HELD-OUT 3: sensitization_transform called repeatedly with the SAME endpoints set object for nodes that reach different subsets of it (the set is narrowed in place)",
 "C15h": "HELD-OUT 3: a bench gate line with a blank or tab BEFORE a comma in the operand list",
 "C16h": "HELD-OUT 3: remove_unloaded(inputs=True) on a circuit with a primary input that had no load before the call (('bb_input') is a string: substring test)",
 "C17h": "HELD-OUT 3: one primary output inside the cone of another, with a side path from one of its fan-ins around it",
 "C18h": "HELD-OUT 3: two feedback edges with different sources plus a forward edge from the cut node of one loop into the re-entry gate of the other (batched disconnect removes the cross product)",
 "C19h": "HELD-OUT 3: circuit_to_bench / to_file(fmt='bench') of a circuit with constants but no primary input",
 "C01i": "HELD-OUT 4: a parity gate with fan-in >= 3 next to a separate 2-input xnor over two of its fan-ins, under a set order in which the wide gate's chain ends with that pair (6 of 16 PYTHONHASHSEED values on the demo)",
 "C03i": "HELD-OUT 4: at least two blackbox instances where an earlier written instance has a pin name that a later instance's type lacks (stale .pin(net) entries carried over)",
 "C04i": "HELD-OUT 4: an xor/xnor with >= 4 fan-ins in a compared cone, and a difference that shows where that gate has odd parity (all chain helpers share one CNF variable)",
 "C05i": "HELD-OUT 4: insert_registers on a circuit with a pre-existing blackbox and a GATE named like an other_flop_io key (clk) on a stage boundary that drives a blackbox input pin",
 "C06i": "HELD-OUT 4: add_subcircuit of a child that contains a nested blackbox, called WITHOUT connections (None or {}): the nested instance is not registered",
 "C07i": "HELD-OUT 4: fill_blackbox with a model containing a nested blackbox whose prefixed name is already registered in the parent while no node name clashes: rejected after the graph was modified",
 "C08i": "HELD-OUT 4: a blackbox instance with a connected input pin and an assumption that names that pin (bb_input encoded as a free variable)",
 "C09i": "HELD-OUT 4: initial_values given as a dict and a flop instance named like an io of the stripped circuit (registered output r driven by flop r)",
 "C10i": "HELD-OUT 4: an or/nor gate with a buf among its fan-ins",
 "C11i": "HELD-OUT 4: influence / avg_sensitivity of a startpoint that reaches the node through an even number of parity-only paths",
 "C15i": "HELD-OUT 4: circuit_to_bench of a circuit with a constant node (the input used to spell the constant is popped from the set that prints the INPUT lines)",
 "C16i": "HELD-OUT 4: remove_unloaded on a circuit whose non-output nodes carry no `output` attribute (fast Verilog reader, Circuit(graph=g))",
 "C17i": "HELD-OUT 4: two or more single-input gates in series on a branch outside any reconvergent region",
 "C18i": "HELD-OUT 4: acyclic_unroll(A) then acyclic_unroll(B) in one interpreter where B has the wiring of A but another gate type somewhere (memo keyed by wiring only)",
 "C19i": "HELD-OUT 4: circuit_to_verilog / to_file of a blackbox-free circuit with an escaped node name (\\a[0])",
 "C01j": "HELD-OUT 5: two or more xnor gates with fan-in >= 3 (they share one inverse-helper variable through a stale closure variable); one wide xnor plus a 2-input xnor that nodes() yields last under some PYTHONHASHSEED values",
 "C03j": "HELD-OUT 5: a circuit with at least one output and no internal net at all (every output is an input; blackbox pins sit directly on inputs): the writer emits `wire ;`",
 "C04j": "HELD-OUT 5: a miter with no endpoint to compare (no shared output, endpoints=set(), self-miter of a circuit without outputs) but startpoints to tie: the early return skips the tying",
 "C05j": "HELD-OUT 5: limit_fanout of a node with a buf load that has room and an xor/xnor load fed by both the node and that buf, popped in that order; PYTHONHASHSEED dependent (19 of 48 seeds on the demo)",
 "C06j": "HELD-OUT 5: fill_blackbox with an implementation that contains a blackbox of another type: the nested instance is registered with the filled blackbox's type object",
 "C07j": "HELD-OUT 5: a rejected add_blackbox whose pin name is already the pin node of another recorded instance (dotted names: instance u with pin rd.en, new instance u.rd with pin en): the roll-back removes that node",
 "C08j": "HELD-OUT 5: signal_probability(approx=False) of a node whose cone contains constants only (no startpoint), value 1, in a circuit that has startpoints elsewhere",
 "C09j": "HELD-OUT 5: sequential_unroll(remove_unloaded=True) with a primary input whose only loads are flop D pins",
 "C10j": "HELD-OUT 5: an and/nand/or/nor gate that reads a net together with an inverter of that net (companion forced to 0 although Kleene evaluation gives X)",
 "C11j": "HELD-OUT 5: influence / avg_sensitivity of the circuit's only endpoint when some startpoint lies outside its cone (unused input, dead logic)",
 "C15j": "HELD-OUT 5: circuit_to_bench of a circuit whose non-output nodes carry no `output` attribute (fast Verilog reader, Circuit(graph=g)): KeyError",
 "C16j": "HELD-OUT 5: inputs=False and a dead gate with a primary input among its fan-ins that set order yields before another dead driver (break instead of continue); PYTHONHASHSEED dependent",
 "C17j": "HELD-OUT 5: a single-output circuit with unloaded logic that reads a net inside the output cone",
 "C18j": "HELD-OUT 5: two or more feedback edges chosen from the same source node (overlapping loops): the second edge is cut but never re-driven",
 "C19j": "HELD-OUT 5: utils.lint(c, unloaded=True) on a circuit with a dead non-output gate (the checker calls the mutating remove_unloaded on its argument, then raises)",
 "C01k": "HELD-OUT 6: a parity gate in which one source net occurs twice once driven inverters are read through: xor(a, not(a), b), xnor(not(a), not(a)', b)",
 "C03k": "HELD-OUT 6: an escaped identifier containing ',', ';', '(' or ')' (legal up to the blank): the reader's lexer cuts the name at the punctuation",
 "C04k": "HELD-OUT 6: two xor/xnor gates over the same operand pair in the compared circuits (ne = a^b next to eq = ~(a^b), a half adder next to a wide parity over a superset): cnf's memo of encoded pairs leaves the second gate without clauses; partly PYTHONHASHSEED dependent",
 "C05k": "HELD-OUT 6: acyclic_unroll of a circuit with a primary input that reaches no output (spare pin, input feeding only dead logic): the clean-up sweep deletes it",
 "C06k": "HELD-OUT 6: add_subcircuit (strip_io) with instance name <inst> into a parent that already has a primary input / output named <inst>_<something> (u_en next to instance u): that net is retyped / loses its output mark",
 "C07k": "HELD-OUT 6: a rejected connect / add whose driver list has a legal driver before the offending blackbox pin, onto a multi-input gate: the edges of the earlier drivers stay",
 "C08k": "HELD-OUT 6: a circuit with a one-input xnor gate (an inverter; also what the bench reader makes of XNOR(a, b, b)) and a query that is not symmetric in its polarity: cnf encodes it as a buffer",
 "C09k": "HELD-OUT 6: tx.unroll with a pair k: v where k is a primary input that is also an output and v is marked output too, n >= 2: the pair is 'oriented' the wrong way",
 "C10k": "HELD-OUT 6: ternary(c); c.set_type(g, other) in place; ternary(c) again: a per-object memo fingerprinted by nodes and edges only returns the stale encoding",
 "C11k": "HELD-OUT 6: influence / avg_sensitivity (exact) of a node whose cone contains another node marked as output: the cone is cut out once and all its outputs are sensitized",
 "C15k": "HELD-OUT 6: circuit_to_bench of a circuit with a one-input xnor gate (an inverter in this library): written as BUF",
 "C16k": "HELD-OUT 6: remove_unloaded through a recursive helper: a dead chain deeper than the recursion limit stops half-way (the check caught it earlier: the helper also visits a shared driver twice -> KeyError)",
 "C17k": "HELD-OUT 6: supergates(construct_supercircuit=True) of a single-output circuit with a primary input outside the output's cone: the super-circuit loses that input",
 "C18k": "HELD-OUT 6: acyclic_unroll bypasses every non-output buf: an xor/xnor reading a net and a buffer of the same net loses an operand",
 "C19k": "HELD-OUT 6: tx.acyclic_unroll on a circuit it rejects (a loop plus a self-feeding gate): the feedback edges are removed from the argument's own graph and only restored on success",
 "C01l": "HELD-OUT 7: a partial assignment that assumes a constant-1 node False (the unit clause the encoder wrote for the constant makes add_assumptions skip the contradicting assumption)",
 "C03l": "HELD-OUT 7: a blackbox whose type name is a primitive gate name in upper or mixed case (BUF, Nand, XOR): the reader lower-cases the module name before testing it against the primitive list",
 "C04l": "HELD-OUT 7: a mitered circuit that contains two nets n and c0_n (or c1_n): add_subcircuit keeps names that already start with the instance prefix, so both map to c0_n and are merged",
 "C05l": "HELD-OUT 7: acyclic_unroll of a circuit in which a constant node (type 0/1) is itself marked as output: the output is dropped",
 "C06l": "HELD-OUT 7: add_subcircuit / add_blackbox whose connection map attaches a child OUTPUT to a parent net that does not exist, listed after connections that are fine: connect now raises KeyError, the ValueError roll-back does not fire, the half-made instance stays",
 "C07l": "HELD-OUT 7: add(n, 'buf'|'not', fanin=[a], fanout=[n]) - the new node in its own fanout plus one other driver: both directions are checked before any edge exists, the buffer gets two fan-ins",
 "C08l": "HELD-OUT 7: model_count / signal_probability / solve with an assumption that contradicts a constant node (constant 0 assumed True): construct_solver filters assumptions on constants out",
 "C09l": "HELD-OUT 7: sequential_unroll with ignore_pins=P, then a later call on a circuit with the same BlackBox type object that does not ignore P: the type's own pin sets were narrowed in place",
 "C10l": "HELD-OUT 7: an and/nand/or/nor gate reading two nets one of whose names is a prefix of the other with a next character sorting before '_' (n1 / n10, d / d[0]): fan-in names and companion names are sorted separately and zipped",
 "C11l": "HELD-OUT 7: sensitization_transform / sensitize (endpoints=None) of a node without a path to the circuit's ONLY output: the single comparator is dropped and `sat` (a buf) is left undriven, i.e. free",
 "C15l": "HELD-OUT 7: circuit_to_bench of a circuit with a net name containing a non-ASCII white-space character (U+00A0, U+2003, U+0085, U+001C..): the writer's new set test accepts it, the reader splits at it",
 "C16l": "HELD-OUT 7: remove_unloaded(inputs=True) on a circuit without any output mark or blackbox input pin: startpoints(<empty selection>) returns all startpoints, so no input is deleted",
 "C17l": "HELD-OUT 7: supergates of a circuit whose only reconvergence closes directly at a fan-out-free output gate (n -> m -> a -> o and n -> o): has_reconvergent_fanout misses it and the 'tree fast path' drops the forward dominator edges",
 "C18l": "HELD-OUT 7: acyclic_unroll with two feedback nodes on overlapping loops, the later one (set order, PYTHONHASHSEED) keeping an edge to an xor/xnor load that also gets aux_in: the operand is doubled and lost",
 "C19l": "HELD-OUT 7: tx.supergates on a circuit with all fan-ins <= 2, one output whose cone is the whole circuit, and another output: limit_fanin copy skipped + cone not rebuilt, so set_output clears the caller's other output marks",
 "C01m": "HELD-OUT 8: a blackbox input pin driven by a constant-0 node (.rst(1'b0)), or a gate whose operands are all constants of its identity value: cnf drops identity constants from the fan-in before encoding, bb_input pins included",
 "C03m": "HELD-OUT 8: gate-primitive round trip of a circuit with a one-input and/nand/or/nor/xor/xnor gate: the writer prints it as buf/not, the identical-graph clause fails",
 "C04m": "HELD-OUT 8: two solve calls on the SAME miter object with different assumptions (sat False, then sat True): cnf is memoised per circuit object and construct_solver appends the assumptions to the kept formula",
 "C05m": "HELD-OUT 8: limit_fanout on a net whose loads include blackbox input pins (clk of inserted flops, a RAM enable): pins are never moved, the node keeps more than k loads",
 "C06m": "HELD-OUT 8: add_subcircuit (strip_io) of a child with a feed-through pin (input that is also an output): the spliced node keeps its output mark in the parent",
 "C07m": "HELD-OUT 8: fill_blackbox with a model exporting a nested blackbox output pin that also drives a buffer inside the model, where that buffer and the load of the replaced pin in the parent have the SAME name: the load sets are united by name and count as one",
 "C08m": "HELD-OUT 8: two parity gates of fan-in >= 3 (different widths) reducing a shared operand pair in opposite order (PYTHONHASHSEED, about 3 % of the seeds on the demo): the second gate's helper gets no clauses",
 "C09m": "HELD-OUT 8: sequential_unroll(remove_unloaded=False) of >= 2 flops whose type has an unread second output pin (QN): only the last flop's QN io is removed",
 "C10m": "HELD-OUT 8: ternary of a circuit with a constant-1 node: its companion is a constant 1 (the node is reported X)",
 "C11m": "HELD-OUT 8: influence / sensitization_transform(endpoints=...) called, the circuit edited in place keeping node and edge counts (set_type, rewire), then the same query again: a one-entry memo of the endpoint cone is reused",
 "C15m": "HELD-OUT 8: bench text with an OR/NOR gate whose operand list repeats an operand (OR(a, b, a), nor(a, a)): the reader's parity cancellation also hits or/nor (substring test)",
 "C16m": "HELD-OUT 8: remove_unloaded on a dead fork (one dead driver with two or more dead loads): the right nodes are deleted but the returned list names some of them twice",
 "C17m": "HELD-OUT 8: supergates of a circuit whose only gates wider than 2 inputs are fan-out free (a wide OR as primary output): limit_fanin is skipped",
 "C18m": "HELD-OUT 8: acyclic_unroll with two cut nodes one of which directly drives the other: aux_in no longer re-drives loads that are cut nodes themselves",
 "C19m": "HELD-OUT 8: tx.relabel with a mapping that renames nothing (identity mapping, absent keys, {}): the result wraps the argument's own graph",
 "C18d": "(helper: Circuit.disconnect testing `u in us` with a single name, i.e. a substring test) a cut feedback node whose name contains the name of another driver of one of its loads (n12 / n1)",
 "C19c": "influence/avg_sensitivity with supergates=True and a peer failure in the middle (solver raises, pysat unimportable, approxmc missing or exit 1)",
 "C19": "tx.subcircuit asked for ALL nodes of a blackbox-free circuit (directly or through sensitization_transform / influence with an endpoint whose cone is the whole circuit), then any edit or the internal set_output",
 "C01": "two parity gates with >= 3 inputs sharing two operands that a hash order pairs in opposite order in the same chain stage (2 of 300 PYTHONHASHSEED values for a fixed circuit)",
}


# seeded changes that a later fix: commit has made harmless: the change still applies, but the repaired library no longer
# relies on the code path it breaks, so neither the agent's demonstration nor the check can (or should) fail any more.
RETIRED = {
 "C06h": "neutralised by fix a7cbac8 (connect stores one-shot iterables in a list first): the filter iterator the seed "
         "wraps the connection value in is no longer used up by the existence check. Last confirmed and caught at /repo fb78a17.",
 "C09d": "neutralised by fix 044f74c (sequential_unroll removes only the io that were created for the pins): Circuit.remove "
         "is no longer asked for names that do not exist, so its early abort on a missing name has no effect there. Last "
         "confirmed and caught at /repo fb78a17.",
 "C04f": "neutralised by fix e7d8402 (miter copies startpoints/endpoints into sets of its own): the seed's endpoints.pop() now "
         "empties miter's private copy, not the caller's object, so a second call with the same object sees it intact. Last "
         "confirmed and caught at /repo e1fd72a.",
}


def passing(cwd, env=None):
    e = dict(os.environ, PYTHONDONTWRITEBYTECODE="1")
    e.update(env or {})
    p = subprocess.run(["timeout", "1200"] + PYTEST, cwd=cwd, capture_output=True, text=True, env=e)
    return sorted(l.split(" - ")[0] for l in p.stdout.splitlines() if l.startswith("PASSED"))


def main():
    ap = argparse.ArgumentParser()
    ap.add_argument("--only")
    ap.add_argument("--tier", default="quick")
    ap.add_argument("--no-tests", action="store_true")
    a = ap.parse_args()
    only = set(a.only.split(",")) if a.only else None
    base_pass = None
    rows = []
    for sid in sorted(os.listdir(os.path.join(ROOT, "seeded"))):
        d = os.path.join(ROOT, "seeded", sid)
        if not os.path.isfile(os.path.join(d, "patch.diff")) or (only and sid not in only):
            continue
        prop = sid[:3]
        if sid.endswith("m"):
            src2 = " (round 13, eighth held-out measurement)"
        elif sid.endswith("l"):
            src2 = " (round 12, seventh held-out measurement)"
        elif sid.endswith("k"):
            src2 = " (round 11, sixth held-out measurement, after audit round 2)"
        elif sid.endswith("j"):
            src2 = " (round 10, fifth held-out measurement, after the history / representation seams and the audit-driven workload extensions)"
        elif sid.endswith("i"):
            src2 = " (round 9, fourth held-out measurement; agents were also asked for side observations on the original code)"
        elif sid.endswith("h"):
            src2 = " (round 8, third held-out measurement: property text plus the list of all earlier changes not to repeat)"
        elif sid.endswith("g"):
            src2 = " (round 7, second held-out measurement: property text plus the list of all earlier changes not to repeat)"
        elif sid.endswith("f"):
            src2 = " (round 6, held-out measurement: only the property text and the list of earlier changes not to repeat)"
        elif sid.endswith("b"):
            src2 = " (round 2: told which round-1 change not to repeat)"
        elif sid.endswith("e"):
            src2 = " (round 5: asked for a change that shows only above a size threshold)"
        elif sid.endswith("d"):
            src2 = " (round 4: asked to change a shared low-level helper, not the function the property names)"
        elif sid.endswith("c"):
            src2 = " (round 3: asked for a change whose visibility depends on solver model choice / hash order / a failure path / a call history)"
        else:
            src2 = ""
        scratch = tempfile.mkdtemp(prefix="cgseed_")
        try:
            repo = os.path.join(scratch, "repo")
            subprocess.run(["rsync", "-a", "--exclude", ".git", "--exclude", "__pycache__", REPO + "/", repo + "/"], check=True)
            r = subprocess.run(["git", "apply", "--directory=repo", os.path.join(d, "patch.diff")], cwd=scratch, capture_output=True, text=True)
            applies = r.returncode == 0
            if not applies:
                r2 = subprocess.run(["patch", "-p1", "-d", "repo", "-i", os.path.join(d, "patch.diff")], cwd=scratch, capture_output=True, text=True)
                applies = r2.returncode == 0
            meta = {"id": sid, "breaks_property": prop, "needs_to_manifest": NEEDS.get(sid, ""),
                    "source": "written by a fresh sub-agent that saw only the property text and its own scratch worktree" + src2,
                    "patch_applies_to_repo_head": applies,
                    "repo_head": subprocess.run(["git", "-C", REPO, "log", "--format=%h", "-1"], capture_output=True, text=True).stdout.strip()}
            if os.path.exists(os.path.join(d, "patch.orig.diff")):
                meta["patch_ported"] = ("patch.diff is the agent's change re-applied onto the current /repo (fix commits rewrote the code "
                                        "around it; 3-way merge by tools/rebase_seeds.sh or a hand port that keeps the mechanism); the "
                                        "agent's own diff is patch.orig.diff")
            if not applies:
                meta["note"] = "patch no longer applies to /repo HEAD: " + (r.stderr or "")[-300:]
            else:
                if not a.no_tests:
                    if base_pass is None:
                        base_pass = passing(REPO)
                    mp = passing(repo, {"PYTHONPATH": repo})
                    meta["tests"] = {"baseline_passed": len(base_pass), "with_change_passed": len(mp),
                                     "identical_passing_set": mp == base_pass}
                env = dict(os.environ, PYTHONDONTWRITEBYTECODE="1")
                p0 = subprocess.run(["timeout", "900", "/venv/bin/python", os.path.join(d, "demo.py")], cwd="/tmp",
                                    env=dict(env, CG_REPO=REPO), capture_output=True, text=True)
                p1 = subprocess.run(["timeout", "900", "/venv/bin/python", os.path.join(d, "demo.py")], cwd="/tmp",
                                    env=dict(env, CG_REPO=repo), capture_output=True, text=True)
                meta["demo"] = {"exit_on_repo": p0.returncode, "exit_with_change": p1.returncode,
                                "message_with_change": (p1.stderr.strip().splitlines() or p1.stdout.strip().splitlines() or [""])[-1][:400]}
                t0 = time.time()
                env2 = dict(os.environ, CG_REPO=repo, CG_EVIDENCE_DIR=os.path.join(scratch, "ev"), CG_REPLAY_DIR=os.path.join(scratch, "rp"))
                pc = subprocess.run(["timeout", "1800", os.path.join(ROOT, "check"), "run", prop, "--tier", a.tier], cwd=ROOT,
                                    env=env2, capture_output=True, text=True)
                vl = [l.strip() for l in pc.stdout.splitlines() if l.startswith("  check=")]
                meta["check"] = {"command": f"CG_REPO=<scratch copy of /repo + patch.diff> ./check run {prop} --tier {a.tier}",
                                 "exit": pc.returncode, "caught": pc.returncode == 1, "wall_s": round(time.time() - t0, 1),
                                 "violations": [v[:300] for v in vl[:4]]}
            meta["what_i_ran"] = ["rsync /repo -> scratch; git apply patch.diff", " ".join(PYTEST) + " (with and without the change; passing test ids compared)",
                                  "CG_REPO=/repo demo.py ; CG_REPO=<scratch> demo.py", f"./check run {prop} --tier {a.tier} against the scratch copy"]
            if sid in RETIRED:
                meta["retired"] = RETIRED[sid]
            with open(os.path.join(d, "meta.json"), "w") as f:
                json.dump(meta, f, indent=1)
            rows.append((sid, applies, meta.get("tests", {}).get("identical_passing_set"), meta.get("demo", {}).get("exit_on_repo"),
                         meta.get("demo", {}).get("exit_with_change"), meta.get("check", {}).get("caught")))
            print(rows[-1], flush=True)
        finally:
            shutil.rmtree(scratch, ignore_errors=True)
    retired = [r for r in rows if r[0] in RETIRED]
    # a retired change must be harmless now: it applies, the demonstration passes with it and the check stays silent
    odd = [r for r in retired if not (r[1] and r[3] == 0 and r[4] == 0 and not r[5])]
    rows = [r for r in rows if r[0] not in RETIRED]
    bad = [r for r in rows if not (r[1] and r[3] == 0 and r[4] not in (0, None) and r[5])] + odd
    print(f"{len(rows) - len(bad) + len(odd)}/{len(rows)} seeded changes confirmed and caught; {len(retired)} retired "
          f"(made harmless by a later fix), {len(odd)} of them not as expected")
    return 0 if not bad else 1


if __name__ == "__main__":
    sys.exit(main())
