#!/bin/bash
# usage: confirm_seed.sh <PROP> <worktree dir> <seed id> [props to run, comma separated]
# Confirms an independently seeded change left applied in a scratch worktree, then stores it as /verif/seeded/<seed id>/
P=$1; WT=$2; SID=$3; PROPS=${4:-$P}
cd $WT || exit 2
git diff -- circuitgraph > /tmp/seed_$SID.diff
diff -q /tmp/seed_$SID.diff seed_out/patch.diff > /dev/null && echo "worktree diff == patch.diff" || { echo "WORKTREE DIFF != patch.diff"; git diff --stat -- circuitgraph; }
echo "== $SID: tests with change"
PYTHONDONTWRITEBYTECODE=1 timeout 900 /venv/bin/python -m pytest -q -p no:cacheprovider --timeout=900 --continue-on-collection-errors -rA 2>&1 | grep -E "^PASSED" | sed 's/ - .*//' | sort > /tmp/seed_${SID}_passed.txt
(cd /repo && PYTHONDONTWRITEBYTECODE=1 timeout 900 /venv/bin/python -m pytest -q -p no:cacheprovider --timeout=900 --continue-on-collection-errors -rA 2>&1 | grep -E "^PASSED" | sed 's/ - .*//' | sort > /tmp/base_passed.txt)
echo "passed: $(wc -l < /tmp/seed_${SID}_passed.txt) (repo: $(wc -l < /tmp/base_passed.txt))"; diff -q /tmp/base_passed.txt /tmp/seed_${SID}_passed.txt && echo "passing set identical to /repo"
echo "== demo with change"; PYTHONDONTWRITEBYTECODE=1 timeout 600 /venv/bin/python seed_out/demo.py > /tmp/seed_${SID}_with.txt 2>&1; echo "exit=$?"; tail -1 /tmp/seed_${SID}_with.txt | cut -c1-300
git apply -R /tmp/seed_$SID.diff || { echo "cannot reverse-apply"; exit 2; }
echo "== demo without change"; PYTHONDONTWRITEBYTECODE=1 timeout 600 /venv/bin/python seed_out/demo.py > /tmp/seed_${SID}_without.txt 2>&1; echo "exit=$?"; tail -1 /tmp/seed_${SID}_without.txt | cut -c1-200
git apply /tmp/seed_$SID.diff
echo "== my checks against the change"
cd /verif && tools/mutants.py --patch /tmp/seed_$SID.diff --prop $PROPS
mkdir -p /verif/seeded/$SID && cp $WT/seed_out/patch.diff $WT/seed_out/demo.py $WT/seed_out/notes.md /verif/seeded/$SID/ && [ -d $WT/seed_out/pysat ] && cp -r $WT/seed_out/pysat /verif/seeded/$SID/
/venv/bin/python - "$SID" "$WT" <<'PY'
import re,sys,os
sid,wt=sys.argv[1],sys.argv[2]
f=f'/verif/seeded/{sid}/demo.py'
s=open(f).read()
s=s.replace(f'"{wt}/seed_out"', '__import__("os").path.dirname(__import__("os").path.abspath(__file__))').replace(f"'{wt}/seed_out'", '__import__("os").path.dirname(__import__("os").path.abspath(__file__))')
s=s.replace(f'"{wt}"', '__import__("os").environ.get("CG_REPO", "/repo")').replace(f"'{wt}'", '__import__("os").environ.get("CG_REPO", "/repo")')
s=re.sub(r'cg\.__file__\.startswith\("%s/?"\)' % re.escape(wt), 'cg.__file__.startswith(__import__("os").path.realpath(__import__("os").environ.get("CG_REPO", "/repo")) + "/")', s)
open(f,'w').write(s)
left=[l for l in s.splitlines() if wt in l and not l.lstrip().startswith('#') and 'Run' not in l]
print("stored; remaining hard-coded path lines:", left[:3])
PY
find /verif/seeded -name "__pycache__" -prune -exec rm -rf {} \;
