#!/bin/bash
# usage: confirm_seed.sh <PROP> [extra props to run]   (confirms an independently seeded change in /tmp/wt_<PROP>)
P=$1; shift
WT=/tmp/wt_$P
cd $WT || exit 2
echo "== $P: diff matches patch.diff?"; git diff -- circuitgraph | diff -q - seed_out/patch.diff >/dev/null && echo same || echo "DIFFERS (using worktree diff)"
git diff -- circuitgraph > /tmp/seed_$P.diff
echo "== tests with change"
PYTHONDONTWRITEBYTECODE=1 timeout 900 /venv/bin/python -m pytest -q -p no:cacheprovider --timeout=900 --continue-on-collection-errors -rA 2>&1 | grep -E "^PASSED" | sed 's/ - .*//' | sort > /tmp/seed_${P}_passed.txt
wc -l < /tmp/seed_${P}_passed.txt
if [ ! -f /tmp/base_passed.txt ]; then (cd /repo && PYTHONDONTWRITEBYTECODE=1 timeout 900 /venv/bin/python -m pytest -q -p no:cacheprovider --timeout=900 --continue-on-collection-errors -rA 2>&1 | grep -E "^PASSED" | sed 's/ - .*//' | sort > /tmp/base_passed.txt); fi
diff -q /tmp/base_passed.txt /tmp/seed_${P}_passed.txt && echo "passing set identical to /repo"
echo "== demo with change"; PYTHONDONTWRITEBYTECODE=1 timeout 600 /venv/bin/python seed_out/demo.py > /tmp/seed_${P}_demo_with.txt 2>&1; echo "exit=$?"; tail -2 /tmp/seed_${P}_demo_with.txt | cut -c1-300
git stash -q -- circuitgraph
echo "== demo without change"; PYTHONDONTWRITEBYTECODE=1 timeout 600 /venv/bin/python seed_out/demo.py > /tmp/seed_${P}_demo_without.txt 2>&1; echo "exit=$?"; tail -1 /tmp/seed_${P}_demo_without.txt | cut -c1-200
git stash pop -q
echo "== my checks against the change"
cd /verif && tools/mutants.py --patch /tmp/seed_$P.diff --prop ${*:-$P}
