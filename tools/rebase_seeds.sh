#!/bin/bash
# Re-create every seeded/<id>/patch.diff against the current /repo HEAD (fix commits move the code the patches touch).
# Uses a scratch worktree and `git apply --3way` (the patches carry blob ids that are in /repo's history).
# Prints the seeds that need a manual port.
WT=/tmp/wrebase
git -C /repo worktree remove --force $WT 2>/dev/null
git -C /repo worktree add --detach $WT HEAD >/dev/null 2>&1 || exit 2
HEAD=$(git -C /repo log --format=%h -1)
for d in /verif/seeded/*/; do
  sid=$(basename $d)
  [ -n "$1" ] && [[ ",$1," != *",$sid,"* ]] && continue
  git -C $WT reset -q --hard HEAD; git -C $WT clean -fdq
  if git -C $WT apply --check $d/patch.diff 2>/dev/null; then
    continue   # still applies as it is
  fi
  if git -C $WT apply --3way $d/patch.diff >/tmp/rebase_$sid.log 2>&1 && ! grep -q "with conflicts" /tmp/rebase_$sid.log; then
    [ -f $d/patch.orig.diff ] || cp $d/patch.diff $d/patch.orig.diff
    git -C $WT diff HEAD -- circuitgraph > $d/patch.diff
    echo "$sid: rebased onto $HEAD"
  else
    echo "$sid: CONFLICT (manual port needed)"; grep -h "conflict\|error" /tmp/rebase_$sid.log | head -3
  fi
done
git -C /repo worktree remove --force $WT
