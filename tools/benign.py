#!/venv/bin/python
"""No-false-alarm self-test: behaviour-preserving refactorings of circuitgraph (different internal
names, orders, equivalent encodings) applied to a scratch copy of /repo.  Every affected check must
stay silent (exit 0).  Counterpart of tools/mutants.py.

  tools/benign.py [--only ID] [--tier quick]
"""
import argparse
import os
import shutil
import subprocess
import sys

sys.path.insert(0, os.path.dirname(os.path.abspath(__file__)))
import mutants as M  # noqa: E402

# (id, properties to run, [(file, old, new), ...])
B = [
 ("aux-inputs-renamed", "C18,C05", [("circuitgraph/tx.py", "aux_in_", "cutnet_")]),
 ("limit-fanin-helper-renamed", "C05,C17", [("circuitgraph/tx.py", "_limit_fanin_", "_lfi_")]),
 ("limit-fanout-helper-renamed", "C05", [("circuitgraph/tx.py", "_limit_fanout_", "_lfo_")]),
 ("limit-fanin-sorted-pops", "C05,C17", [("circuitgraph/tx.py",
    "            fi = ck.fanin(n)\n            f0 = fi.pop()\n            f1 = fi.pop()\n            ck.disconnect([f0, f1], n)",
    "            fi = sorted(ck.fanin(n))\n            f0 = fi.pop()\n            f1 = fi.pop()\n            ck.disconnect([f0, f1], n)")]),
 ("sensitivity-copies-renamed", "C11", [("circuitgraph/tx.py", 'inv = f"inv_{i}"', 'inv = f"flip{i}"')]),
 ("miter-comparators-renamed", "C04,C11", [("circuitgraph/tx.py", 'f"dif_{n}", "xor"', 'f"cmp_{n}", "xor"')]),
 ("ternary-helpers-renamed", "C10", [("circuitgraph/tx.py", '_x_in_fi"', '_anyx"'), ("circuitgraph/tx.py", '_is_0"', '_zero"'),
                                      ("circuitgraph/tx.py", '_not_x"', '_known"')]),
 ("cnf-node-order-sorted", "C01,C08", [("circuitgraph/sat.py", "    for n in c.nodes():\n        variables.id(n)\n        n_type = c.type(n)",
                                         "    for n in sorted(c.nodes()):\n        variables.id(n)\n        n_type = c.type(n)")]),
 ("cnf-aux-keys-renamed", "C01,C08", [("circuitgraph/sat.py", '("xor", nets[-2], nets[-1])', '("parity-chain", nets[-2], nets[-1])'),
                                        ("circuitgraph/sat.py", '("xor_inv", n)', '("parity-inv", n)')]),
 ("cnf-input-clause-dropped-for-loaded-inputs", "C01,C08,C04", [("circuitgraph/sat.py",
    '        elif n_type in ["bb_output", "input"]:\n            formula.append([variables.id(n), -variables.id(n)])',
    '        elif n_type in ["bb_output", "input"]:\n            formula.append([-variables.id(n), variables.id(n)])')]),
 ("acyclic-unroll-extra-copy", "C18,C05", [("circuitgraph/tx.py", "    for i in range(len(feedback) + 1):", "    for i in range(len(feedback) + 2):")]),
 ("remove-unloaded-fifo", "C16", [("circuitgraph/circuit.py", "            n = unloaded.pop()\n            for fi in self.fanin(n):",
                                   "            n = unloaded.pop(0)\n            for fi in self.fanin(n):")]),
 ("verilog-writer-sorted-wires", "C03", [("circuitgraph/io.py", '    verilog += "".join(f"  wire {wire};\\n" for wire in wires)',
                                          '    verilog += "".join(f"  wire {wire};\\n" for wire in sorted(wires))')]),
 ("verilog-writer-instances-first", "C03", [("circuitgraph/io.py", '    verilog += "".join(f"  {inst};\\n" for inst in insts)',
                                             '    verilog += "".join(f"  {inst};\\n" for inst in reversed(insts))')]),
 ("bench-writer-sorted", "C15", [("circuitgraph/io.py", '    bench += "\\n".join(insts)', '    bench += "\\n".join(sorted(insts))')]),
 ("model-count-blocks-sorted", "C08,C11", [("circuitgraph/sat.py", "    startpoints = c.startpoints()\n    solver, variables = construct_solver(c, assumptions)",
                                             "    startpoints = sorted(c.startpoints())\n    solver, variables = construct_solver(c, assumptions)")]),
 ("insert-registers-q-suffix", "C05", [("circuitgraph/tx.py", 'q_suffix="_cg_insert_reg_q_"', 'q_suffix="_regq"')]),
 ("supergates-list-reversed-then-sorted", "C17", [("circuitgraph/tx.py", "    for node in nx.topological_sort(g):",
                                                    "    for node in nx.lexicographical_topological_sort(g):")]),
 ("copy-deepcopies-graph", "C19,C06", [("circuitgraph/circuit.py", "graph=self.graph.copy(), name=self.name, blackboxes=self.blackboxes.copy()",
                                          "graph=self.graph.copy(), name=str(self.name), blackboxes=dict(self.blackboxes)")]),
 ("is-output-get", "C19,C16", [("circuitgraph/circuit.py",
    '            try:\n                return self.graph.nodes[node]["output"]\n            except KeyError:\n                return False',
    '            return self.graph.nodes[node].get("output", False)')]),
 ("strip-ignore-pins-as-set", "C06,C09", [("circuitgraph/tx.py",
    "    elif isinstance(ignore_pins, str):\n        ignore_pins = [ignore_pins]\n    else:\n        ignore_pins = list(ignore_pins)\n    g = c.graph.copy()",
    "    elif isinstance(ignore_pins, str):\n        ignore_pins = {ignore_pins}\n    else:\n        ignore_pins = set(ignore_pins)\n    g = c.graph.copy()")]),
 ("cnf-self-fed-buf-emits-nothing-new", "C01,C08", [("circuitgraph/sat.py",
    '        elif n_type in ["buf", "bb_input"]:\n            if c.fanin(n):\n                f = c.fanin(n).pop()\n                formula.append([variables.id(n), -variables.id(f)])\n                formula.append([-variables.id(n), variables.id(f)])',
    '        elif n_type in ["buf", "bb_input"]:\n            if c.fanin(n):\n                f = c.fanin(n).pop()\n                formula.append([variables.id(n), -variables.id(f)])\n                if f != n:\n                    formula.append([-variables.id(n), variables.id(f)])')]),
 ("add-subcircuit-overlaps-collected", "C07,C06", [("circuitgraph/circuit.py",
    '        mapping = {}\n        for n in sc:\n            if f"{name}_{n}" in self.graph.nodes:\n                raise ValueError(f"name {n} overlaps with {name} subcircuit.")\n            mapping[n] = f"{name}_{n}"',
    '        mapping = {n: f"{name}_{n}" for n in sc}\n        overlap = sorted(n for n, m in mapping.items() if m in self.graph.nodes)\n        if overlap:\n            raise ValueError(f"names {overlap} overlap with {name} subcircuit.")')]),
 ("bench-reader-memo-with-private-copies", "C15", [
    ("circuitgraph/io.py", "    # create circuit\n    c = Circuit(name=name)\n\n    dff = BlackBox(\"dff\", [\"D\"], [\"Q\"])",
     "    key = (name, netlist)\n    if key in _BENCH_MEMO:\n        return _BENCH_MEMO[key].copy()\n    # create circuit\n    c = Circuit(name=name)\n\n    dff = BlackBox(\"dff\", [\"D\"], [\"Q\"])"),
    ("circuitgraph/io.py", "            c.set_output(n)\n\n    return c\n", "            c.set_output(n)\n\n    _BENCH_MEMO[key] = c.copy()\n    return c\n"),
    ("circuitgraph/io.py", "def bench_to_circuit(netlist, name):", "_BENCH_MEMO = {}\n\n\ndef bench_to_circuit(netlist, name):")]),
 ("verilog-grammar-text-read-once", "C03", [
    ("circuitgraph/parsing/verilog.py", "    with open(Path(__file__).parent.absolute() / \"verilog.lark\") as f:\n        parser = Lark(f, parser=\"lalr\", transformer=transformer)",
     "    global _GRAMMAR\n    if _GRAMMAR is None:\n        with open(Path(__file__).parent.absolute() / \"verilog.lark\") as f:\n            _GRAMMAR = f.read()\n    parser = Lark(_GRAMMAR, parser=\"lalr\", transformer=transformer)"),
    ("circuitgraph/parsing/verilog.py", "def parse_verilog_netlist(", "_GRAMMAR = None\n\n\ndef parse_verilog_netlist(")]),
 ("remove-unloaded-kept-types-from-module-constant", "C16", [
    ("circuitgraph/circuit.py", "        unloaded = [\n            n\n            for n in self.graph\n            if self.type(n) not in [\"bb_input\"]\n            and (inputs or self.type(n) not in [\"input\", \"bb_output\"])",
     "        kept = set(_BOUNDARY)\n        if inputs:\n            kept -= {\"input\", \"bb_output\"}\n        unloaded = [\n            n\n            for n in self.graph\n            if self.type(n) not in kept"),
    ("circuitgraph/circuit.py", "class Circuit:", "_BOUNDARY = {\"input\", \"bb_input\", \"bb_output\"}\n\n\nclass Circuit:")]),
 ("unroll-extra-io-buffers-kept", "C09", [("circuitgraph/tx.py", 'def unroll(c, n, state_io, prefix="cg_unroll"):', 'def unroll(c, n, state_io, prefix="cg_unroll", _unused=None):')]),
]


def main():
    ap = argparse.ArgumentParser()
    ap.add_argument("--only")
    ap.add_argument("--tier", default="quick")
    a = ap.parse_args()
    bad = 0
    n = 0
    for bid, props, edits in B:
        if a.only and bid not in a.only.split(",") and not (set(a.only.split(",")) & set(props.split(","))):
            continue
        scratch = M.make_scratch()
        try:
            ok = True
            for path, old, new in edits:
                f = os.path.join(scratch, "repo", path)
                s = open(f).read()
                if s.count(old) < 1:
                    print(f"{bid}: PATTERN-NOT-FOUND in {path}: {old[:40]!r}")
                    ok = False
                    break
                open(f, "w").write(s.replace(old, new))
            if not ok:
                bad += 1
                continue
            for prop in props.split(","):
                rc, out, dt = M.run_check(prop, scratch, a.tier)
                n += 1
                verdict = "silent" if rc == 0 else ("FALSE-ALARM" if rc == 1 else f"HARNESS-ERROR({rc})")
                vl = [l.strip() for l in out.splitlines() if l.startswith("  check=") or l.startswith("HARNESS")]
                print(f"{bid:44s} {prop} {verdict} in {dt:5.1f}s  {vl[0][:160] if vl else ''}", flush=True)
                if rc != 0:
                    bad += 1
        finally:
            shutil.rmtree(scratch, ignore_errors=True)
    print(f"{n - bad}/{n} check runs stayed silent on behaviour-preserving changes")
    return 0 if bad == 0 else 1


if __name__ == "__main__":
    sys.exit(main())
