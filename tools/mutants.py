#!/venv/bin/python
"""Sensitivity self-test: apply small realistic patches to a scratch copy of /repo (outside /repo and
/verif, removed afterwards) and require the corresponding quick check to exit 1 with a verified replay.

  tools/mutants.py [--only ID[,ID]] [--with-tests] [--tier quick] [--patch file.diff --prop C07]

Evidence and replay files of these runs go to the scratch directory, never to /verif/evidence.
"""
import argparse
import json
import os
import shutil
import subprocess
import sys
import tempfile
import time

ROOT = os.path.dirname(os.path.dirname(os.path.abspath(__file__)))
REPO = os.environ.get("CG_REPO_SRC", "/repo")

# (mutant id, property, file, old, new)
M = [
 ("C01-nand-polarity", "C01", "circuitgraph/sat.py",
  '            for f in c.fanin(n):\n                formula.append([variables.id(n), variables.id(f)])\n            formula.append([-variables.id(n)] + [-variables.id(f) for f in c.fanin(n)])',
  '            for f in c.fanin(n):\n                formula.append([variables.id(n), variables.id(f)])\n            formula.append([-variables.id(n)] + [variables.id(f) for f in c.fanin(n)])'),
 ("C01-xnor-drop-inversion", "C01", "circuitgraph/sat.py",
  '                formula.append([-variables.id(n), -variables.id(inv_net)])\n', ''),
 ("C01-aux-alias", "C01", "circuitgraph/sat.py",
  'new_net = ("xor", nets[-2], nets[-1])', 'new_net = "xor_" + str(nets[-2]) + "_" + str(nets[-1])'),
 ("C03-nor-drops-negation", "C03", "circuitgraph/io.py",
  'if c.type(n) in ["xnor", "nor", "nand"]:', 'if c.type(n) in ["xnor", "nand"]:'),
 ("C03-escaped-no-space", "C03", "circuitgraph/io.py",
  'c.relabel({node: node + " "})', 'c.relabel({node: node})'),
 ("C04-tie-only-copy0", "C04", "circuitgraph/tx.py",
  'm.add(n, "input", fanout=[f"c0_{n}", f"c1_{n}"])', 'm.add(n, "input", fanout=[f"c0_{n}"])'),
 ("C04-compare-xnor", "C04", "circuitgraph/tx.py",
  'm.add(f"dif_{n}", "xor", fanin=[f"c0_{n}", f"c1_{n}"], fanout="sat")',
  'm.add(f"dif_{n}", "xnor" if len(endpoints) > 3 else "xor", fanin=[f"c0_{n}", f"c1_{n}"], fanout="sat")'),
 ("C05-nand-regroup-nand", "C05", "circuitgraph/tx.py", '"nand": "and",', '"nand": "nand",'),
 ("C05-fanout-buffer-not", "C05", "circuitgraph/tx.py",
  '                f"{n}_limit_fanout_{i}",\n                "buf",', '                f"{n}_limit_fanout_{i}",\n                "buf" if i < 2 else "not",'),
 ("C06-fill-keeps-input-type", "C06", "circuitgraph/circuit.py",
  '        for n in self.blackboxes[name].inputs():\n            self.set_type(f"{name}_{n}", "buf")\n', ''),
 ("C06-subcircuit-bb-unprefixed", "C06", "circuitgraph/circuit.py",
  '        for bb_name, bb in sc_blackboxes:\n            self.blackboxes[f"{name}_{bb_name}"] = bb\n\n        # make connections',
  '        for bb_name, bb in sc_blackboxes:\n            self.blackboxes[f"{name}_{bb_name}" if len(sc_blackboxes) < 2 else bb_name] = bb\n\n        # make connections'),
 ("C07-connect-not-multi-fanin", "C07", "circuitgraph/circuit.py",
  'if t in ["bb_input", "buf", "not"]:\n                if len(self.fanin(v)) + len(us) > 1:',
  'if t in ["bb_input", "buf"]:\n                if len(self.fanin(v)) + len(us) > 1:'),
 ("C07-uid-returns-existing", "C07", "circuitgraph/circuit.py",
  '        while f"{n}_{i}" in self.graph or f"{n}_{i}" in blocked:\n            if i < 10:',
  '        while (f"{n}_{i}" in self.graph and i < 3) or f"{n}_{i}" in blocked:\n            if i < 10:'),
 ("C07-add-no-rollback", "C07", "circuitgraph/circuit.py",
  '            self.graph.remove_edges_from(new_edges)\n', '            pass\n'),
 ("C08-block-inputs-only", "C08", "circuitgraph/sat.py",
  '    startpoints = c.startpoints()\n    solver, variables = construct_solver(c, assumptions)',
  '    startpoints = c.inputs()\n    solver, variables = construct_solver(c, assumptions)'),
 ("C08-drop-flush", "C08", "circuitgraph/sat.py", '        tmp.write(dimacs)\n        tmp.flush()\n', '        tmp.write(dimacs)\n'),
 ("C08-explicit-sampling-set-ignored", "C08", "circuitgraph/sat.py",
  '    # specify sampling set\n    enc_inps = " ".join([str(variables.id(n)) for n in startpoints])',
  '    # specify sampling set\n    enc_inps = " ".join([str(variables.id(n)) for n in c.startpoints()])'),
 ("C08-sigprob-wrong-denominator", "C08", "circuitgraph/props.py",
  'return count / (2 ** len(subc.startpoints()))', 'return count / (2 ** len(c.startpoints()))'),
 ("C09-initial-at-last-step", "C09", "circuitgraph/tx.py",
  'for fi in [io_map[f"{bb}_{reg_q_port}"][0] for bb in c.blackboxes]:', 'for fi in [io_map[f"{bb}_{reg_q_port}"][-1] for bb in c.blackboxes]:'),
 ("C09-flop-outputs-ignored-last", "C09", "circuitgraph/tx.py",
  'uc.set_output(io_map[state_output], add_flop_outputs)', 'uc.set_output(io_map[state_output][:-1] if n > 2 else io_map[state_output], add_flop_outputs)'),
 ("C10-is0-with-or", "C10", "circuitgraph/tx.py",
  '                    f"{p}_is_0",\n                    "nor",', '                    f"{p}_is_0",\n                    "or",'),
 ("C10-parity-x-and", "C10", "circuitgraph/tx.py",
  '                mapping[n],\n                "or",\n                fanin=[mapping[p] for p in c.fanin(n)],\n                output=c.is_output(n),',
  '                mapping[n],\n                "or" if len(c.fanin(n)) < 3 else "and",\n                fanin=[mapping[p] for p in c.fanin(n)],\n                output=c.is_output(n),'),
 ("C11-influence-denominator", "C11", "circuitgraph/props.py",
  'influences[s] = mc(c, s, n) / (2 ** len(sp))', 'influences[s] = mc(c, s, n) / (2 ** len(c.startpoints()))'),
 ("C11-sensitivity-start-low", "C11", "circuitgraph/props.py",
  '    sen = len(sp)\n    s = cg.tx.sensitivity_transform(c, n)', '    sen = min(len(sp), 3)\n    s = cg.tx.sensitivity_transform(c, n)'),
 ("C15-buff-reads-as-not", "C15", "circuitgraph/io.py",
  '        if gate in ("buff", "BUFF"):\n            gate = "buf"', '        if gate in ("buff", "BUFF"):\n            gate = "buf" if gate == "BUFF" else "not"'),
 ("C15-writer-const1-as-xor", "C15", "circuitgraph/io.py",
  'insts.append(f"{n} = XNOR({const_inp}, {const_inp})")', 'insts.append(f"{n} = XOR({const_inp}, {const_inp})")'),
 ("C16-deletes-dead-fed-outputs", "C16", "circuitgraph/circuit.py",
  '                if not self.is_output(fi) and len(self.fanout(fi)) == 1:', '                if len(self.fanout(fi)) == 1:'),
 ("C16-seed-filter-reverted", "C16", "circuitgraph/circuit.py",
  '            and (inputs or self.type(n) not in ["input", "bb_output"])\n', ''),
 ("C17-topo-edges-reversed", "C17", "circuitgraph/tx.py",
  '                    g.add_edge(other_output, output)', '                    g.add_edge(output, other_output)'),
 ("C17-mutual-elimination", "C17", "circuitgraph/tx.py",
  '(s.nodes() - s.inputs() for s in remaining - {supergate}),', '(s.nodes() - s.inputs() for s in supergate_circuits - {supergate}),'),
 ("C19-strip_io-aliases-graph", "C19", "circuitgraph/tx.py",
  '    g = c.graph.copy()\n    for i in c.inputs():\n        g.nodes[i]["type"] = "buf"\n    for o in c.outputs():\n        g.nodes[o]["output"] = False\n\n    return cg.Circuit(graph=g, name=c.name, blackboxes=c.blackboxes.copy())\n\n\ndef strip_outputs',
  '    g = c.graph.copy() if c.inputs() else c.graph\n    for i in c.inputs():\n        g.nodes[i]["type"] = "buf"\n    for o in c.outputs():\n        g.nodes[o]["output"] = False\n\n    return cg.Circuit(graph=g, name=c.name, blackboxes=c.blackboxes.copy())\n\n\ndef strip_outputs'),
 ("C19-copy-shares-registry", "C19", "circuitgraph/circuit.py",
  'graph=self.graph.copy(), name=self.name, blackboxes=self.blackboxes.copy()', 'graph=self.graph.copy(), name=self.name, blackboxes=self.blackboxes'),
 ("C19-limit_fanout-mutates-arg", "C19", "circuitgraph/tx.py",
  '    ck = c.copy()\n    for n in ck.nodes():\n        i = 0\n        while len(ck.fanout(n)) > k:',
  '    ck = c if k > 3 else c.copy()\n    for n in ck.nodes():\n        i = 0\n        while len(ck.fanout(n)) > k:'),
 ("C19-verilog-writer-detaches-arg", "C19", "circuitgraph/io.py",
  '    c = Circuit(graph=c.graph.copy(), name=c.name, blackboxes=c.blackboxes.copy())\n    # sanitize escaped nets',
  '    c = Circuit(graph=c.graph if behavioral else c.graph.copy(), name=c.name, blackboxes=c.blackboxes.copy())\n    # sanitize escaped nets'),
]
EXTRA = {}
# Equivalent with respect to the property (kept for the record, expected to stay silent): with every auxiliary input
# set to the stable value of its feedback node one copy already reproduces the stable state, so C18 as stated does
# not need len(feedback)+1 copies.
EQUIVALENT = [
 ("C18-one-copy-fewer", "C18", "circuitgraph/tx.py",
  '    for i in range(len(feedback) + 1):', '    for i in range(max(1, len(feedback))):'),
]


def make_scratch():
    d = tempfile.mkdtemp(prefix="cgmut_")
    subprocess.run(["rsync", "-a", "--exclude", ".git", "--exclude", "__pycache__", REPO + "/", d + "/repo/"], check=True)
    return d


def run_check(prop, scratch, tier, seed=None):
    env = dict(os.environ, CG_REPO=os.path.join(scratch, "repo"), CG_EVIDENCE_DIR=os.path.join(scratch, "ev"),
               CG_REPLAY_DIR=os.path.join(scratch, "replays"))
    if seed is not None:
        env["VERIF_SEED"] = str(seed)
    t0 = time.time()
    p = subprocess.run(["timeout", "900", os.path.join(ROOT, "check"), "run", prop, "--tier", tier], env=env,
                       capture_output=True, text=True, cwd=ROOT)
    return p.returncode, p.stdout + p.stderr, time.time() - t0


def main():
    ap = argparse.ArgumentParser()
    ap.add_argument("--only")
    ap.add_argument("--with-tests", action="store_true")
    ap.add_argument("--tier", default="quick")
    ap.add_argument("--patch")
    ap.add_argument("--prop")
    ap.add_argument("--seed", type=int)
    a = ap.parse_args()
    results = []
    if a.patch:
        scratch = make_scratch()
        try:
            r = subprocess.run(["git", "apply", "--directory=repo", os.path.abspath(a.patch)], cwd=scratch, capture_output=True, text=True)
            if r.returncode != 0:
                r = subprocess.run(["patch", "-p1", "-d", "repo", "-i", os.path.abspath(a.patch)], cwd=scratch, capture_output=True, text=True)
                if r.returncode != 0:
                    print("cannot apply patch:", r.stdout, r.stderr)
                    return 2
            props = a.prop.split(",")
            for prop in props:
                rc, out, dt = run_check(prop, scratch, a.tier, a.seed)
                lines = [l for l in out.splitlines() if l.startswith(("VIOLATION", "  check=", "KNOWN", "HARNESS")) or " quick:" in l or " thorough:" in l]
                print(f"{prop}: exit={rc} ({dt:.1f}s)")
                for l in lines[:8]:
                    print("   ", l[:300])
        finally:
            shutil.rmtree(scratch, ignore_errors=True)
        return 0
    only = set(a.only.split(",")) if a.only else None
    bad = 0
    for mid, prop, path, old, new in M:
        if only and mid not in only and prop not in only:
            continue
        scratch = make_scratch()
        try:
            f = os.path.join(scratch, "repo", path)
            s = open(f).read()
            edits = [(path, old, new)]
            if mid in EXTRA:
                edits = EXTRA[mid][1:]   # replace the placeholder edit by the real ones
            ok = True
            for pth, o, n in edits:
                ff = os.path.join(scratch, "repo", pth)
                s = open(ff).read()
                if s.count(o) != 1:
                    print(f"{mid}: PATTERN-NOT-FOUND ({s.count(o)} matches) in {pth}")
                    ok = False
                    break
                open(ff, "w").write(s.replace(o, n))
            if not ok:
                bad += 1
                continue
            tests = ""
            if a.with_tests:
                p = subprocess.run(["timeout", "900", "/venv/bin/python", "-m", "pytest", "-q", "-p", "no:cacheprovider", "--timeout=900",
                                    "--continue-on-collection-errors", "-x" if False else "-q"], cwd=os.path.join(scratch, "repo"),
                                   capture_output=True, text=True,
                                   env=dict(os.environ, PYTHONPATH=os.path.join(scratch, "repo"), PYTHONDONTWRITEBYTECODE="1"))
                tests = " tests: " + (p.stdout.strip().splitlines() or ["?"])[-1]
            rc, out, dt = run_check(prop, scratch, a.tier, a.seed)
            vl = [l for l in out.splitlines() if l.startswith("  check=")]
            verdict = "CAUGHT" if rc == 1 else ("MISSED" if rc == 0 else f"HARNESS-ERROR({rc})")
            if rc != 1:
                bad += 1
            print(f"{mid:34s} {prop} {verdict} in {dt:5.1f}s{tests}  {vl[0][:150].strip() if vl else ''}")
            results.append({"mutant": mid, "property": prop, "verdict": verdict, "wall_s": round(dt, 1)})
            if rc not in (0, 1):
                print(out[-1500:])
        finally:
            shutil.rmtree(scratch, ignore_errors=True)
    print(json.dumps({"caught": sum(1 for r in results if r["verdict"] == "CAUGHT"), "total": len(results)}))
    return 0 if bad == 0 else 1


if __name__ == "__main__":
    sys.exit(main())
