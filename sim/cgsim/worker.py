"""One *world*: a fresh interpreter with a fixed PYTHONHASHSEED that executes a
batch of runs of one property, minimises what fails, and writes a JSON report.

Usage (by the launcher only):
  python worker.py --prop C07 --wseed W --first 0 --count 40 --tier quick --seconds 25 --out f.json
  python worker.py --replay replay.json --out f.json
"""
import argparse
import faulthandler
import importlib
import json
import os
import random
import signal
import sys
import time
import traceback

HERE = os.path.dirname(os.path.abspath(__file__))
SIM = os.path.dirname(HERE)
sys.path.insert(0, os.path.join(SIM, "stubs"))
sys.path.insert(0, SIM)
REPO = os.environ.get("CG_REPO", "/repo")
sys.path.insert(0, REPO)

from cgsim import core, peers, ref  # noqa: E402
from cgsim.core import H, Violation, Skip, match_known  # noqa: E402


RUN_WALL_LIMIT = 25


SPARSE_SHARE = 0.1  # share of runs whose circuits carry no `output` attribute on non-output nodes (ref.SPARSE)
STALE_SHARE = 0.15  # share of runs in which every circuit handed to the library was seen by it before in another state (ref.STALE)
TWICE_SHARE = 0.2   # share of runs in which every judged library call is preceded by the same call (see RunCtx.call)


def _on_alarm(signum, frame):
    raise core.RunTimeout(f"run abandoned after {RUN_WALL_LIMIT} s wall clock")


def load_cg():
    import circuitgraph as cg
    real = os.path.realpath(cg.__file__)
    if not real.startswith(os.path.realpath(REPO) + os.sep):
        raise RuntimeError(f"circuitgraph imported from {real}, expected under {REPO}")
    return cg


class CircuitHashSeam:
    """S2: iteration order of sets of Circuit objects is decided by the run PRNG instead of by
    heap addresses (monkeypatch from outside; no change in /repo)."""

    def __init__(self, cg):
        self.cg = cg
        self.rng = random.Random(0)
        orig_init = cg.Circuit.__init__
        seam = self

        def __init__(self, *a, **kw):
            self._cgsim_hash = seam.rng.getrandbits(61)
            orig_init(self, *a, **kw)

        def __hash__(self):
            try:
                return self._cgsim_hash
            except AttributeError:
                return id(self) >> 4

        cg.Circuit.__init__ = __init__
        cg.Circuit.__hash__ = __hash__

    def reseed(self, seed):
        self.rng = random.Random(H(seed, "circuit-hash"))


def load_known():
    p = os.environ.get("CG_KNOWN", os.path.join(os.path.dirname(SIM), "known_findings.json"))
    try:
        with open(p) as f:
            return [e for e in json.load(f).get("findings", []) if e.get("status") == "open"]
    except FileNotFoundError:
        return []


class World:
    def __init__(self, prop_id):
        self.cg = load_cg()
        self.hash_seam = CircuitHashSeam(self.cg)
        self.prop = importlib.import_module(f"cgsim.props.{prop_id.lower()}")
        self.prop_id = prop_id
        self.known = load_known()
        self.seams = peers.Seams(self.cg)

    def execute(self, case):
        """Run one concrete case.  Pure function of (hash world, case)."""
        pc = case.get("peer", {})
        peer = peers.PeerCtx(seed=pc.get("seed", 0), policy=pc.get("policy", "inputs_first"),
                             faults=pc.get("faults"))
        peer.fs = peers.SimFS()
        peers.install(peer)
        self.hash_seam.reseed(pc.get("seed", 0))
        self.seams.install(peer.fs)
        ctx = core.RunCtx(self.cg, peer, self.seams)
        ctx.known = self.known
        ctx.prop_id = self.prop_id
        ctx.twice = bool(case.get("_twice")) and not getattr(self.prop, "NO_TWICE", False)
        ref.STALE.update(on=bool(case.get("_stale")) and not getattr(self.prop, "NO_STALE", False),
                         seed=pc.get("seed", 0), used=0)
        ctx.stale = ref.STALE["on"]
        ref.SPARSE["on"] = bool(case.get("_sparse"))
        if ref.SPARSE["on"]:
            ctx.probe("circuits_without_output_marks_on_non_outputs")
        res = {"status": "ok"}
        # watchdog: a single run that takes longer than RUN_WALL_LIMIT seconds (an exponential library query on an
        # unlucky circuit, a heavily loaded machine) is abandoned and counted as skipped - never as held or violated
        signal.signal(signal.SIGALRM, _on_alarm)
        signal.alarm(RUN_WALL_LIMIT)
        try:
            self.prop.run(case, ctx)
        except Violation as v:
            res = {"status": "violation", "check_id": v.check_id, "detail": v.detail, "sig": v.sig}
        except Skip as s:
            res = {"status": "skip", "why": str(s)}
        except core.RunTimeout as s:
            res = {"status": "skip", "why": str(s)}
            ctx.stats["runs_abandoned_by_watchdog"] += 1
        except RecursionError:
            res = {"status": "harness_error", "trace": "RecursionError\n" + traceback.format_exc()[-1500:]}
        except Exception:
            res = {"status": "harness_error", "trace": traceback.format_exc()[-3000:]}
        finally:
            signal.alarm(0)
            self.seams.remove()
            peers.uninstall()
            if ref.STALE["used"]:
                ctx.probe("object_seen_before_in_other_state", ref.STALE["used"])
            ref.STALE["on"] = False
            ref.SPARSE["on"] = False
        for kind, k, hit in peer.trace:
            ctx.log("peer", kind, k, hit)
        res["digest"] = ctx.digest()
        res["probes"] = dict(ctx.probes)
        res["stats"] = dict(ctx.stats)
        res["orders"] = sorted(ctx.orders)
        res["faults_fired"] = dict(peer.fired)
        res["peer_counts"] = dict(peer.counts)
        res["solver"] = dict(peer.solver_stats)
        res["soft"] = ctx.soft
        res["events"] = ctx.events[:60]
        return res

    def execute_fresh(self, cases):
        """Execute a list of cases in a forked child of this (pristine) interpreter and return the result of the last
        one: whatever state the library keeps between calls starts from scratch for every candidate."""
        r, wfd = os.pipe()
        pid = os.fork()
        if pid == 0:
            code = 0
            try:
                os.close(r)
                res = None
                for c in cases:
                    res = self.execute(c)
                data = json.dumps(res, default=str).encode()
                while data:
                    n = os.write(wfd, data)
                    data = data[n:]
            except BaseException:
                code = 1
            finally:
                os._exit(code)
        os.close(wfd)
        chunks = []
        while True:
            b = os.read(r, 1 << 16)
            if not b:
                break
            chunks.append(b)
        os.close(r)
        os.waitpid(pid, 0)
        try:
            return json.loads(b"".join(chunks).decode())
        except ValueError:
            return {"status": "harness_error", "trace": "forked execution produced no result", "digest": ""}

    def minimise_fresh(self, prior, case, check_id, sig, budget_s=90.0):
        """History-aware minimisation in a pristine interpreter: first the prelude (cases executed before the judged
        one) is reduced ddmin-style, then the judged case itself; every candidate runs in a fresh fork."""
        t0 = time.time()
        sig_key = getattr(self.prop, "sig_key", lambda s: None)
        want = sig_key(sig)

        def fails(pr, c):
            r = self.execute_fresh(list(pr) + [c])
            return r.get("status") == "violation" and r.get("check_id") == check_id and sig_key(r.get("sig")) == want

        n_exec = 0
        chunk = len(prior)
        while prior and chunk >= 1 and time.time() - t0 < budget_s * 0.5:
            i = 0
            while i < len(prior) and time.time() - t0 < budget_s * 0.5:
                cand = prior[:i] + prior[i + chunk:]
                n_exec += 1
                if fails(cand, case):
                    prior = cand
                else:
                    i += chunk
            if chunk == 1:
                break
            chunk = max(1, chunk // 2)
        shrink = getattr(self.prop, "shrink", None)

        def with_generic(c):
            for flag in ("_twice", "_stale", "_sparse"):
                if c.get(flag):
                    yield {k: v for k, v in c.items() if k != flag}
            if shrink is not None:
                yield from shrink(c)

        improved = True
        while improved and time.time() - t0 < budget_s:
            improved = False
            try:
                for cand in with_generic(case):
                    if time.time() - t0 > budget_s:
                        break
                    if cand is None:
                        continue
                    try:
                        cand = json.loads(json.dumps(cand))
                    except (TypeError, ValueError):
                        continue
                    n_exec += 1
                    if fails(prior, cand):
                        case = cand
                        improved = True
                        break
            except Exception:
                break
        return prior, case, n_exec

    def minimise(self, case, check_id, sig, budget_s=20.0, max_exec=600):
        shrink = getattr(self.prop, "shrink", None)
        if shrink is None:
            return case, 0
        t0 = time.time()
        n_exec = 0
        improved = True
        sig_key = getattr(self.prop, "sig_key", lambda s: None)
        want = sig_key(sig)
        def with_generic(c):
            for flag in ("_twice", "_stale", "_sparse"):
                if c.get(flag):
                    yield {k: v for k, v in c.items() if k != flag}
            yield from shrink(c)

        while improved:
            improved = False
            try:
                cands = with_generic(case)
                for cand in cands:
                    if n_exec >= max_exec or time.time() - t0 > budget_s:
                        return case, n_exec
                    if cand is None:
                        continue
                    try:
                        cand = json.loads(json.dumps(cand))
                    except (TypeError, ValueError):
                        continue
                    n_exec += 1
                    r = self.execute(cand)
                    if r["status"] == "violation" and r["check_id"] == check_id and sig_key(r["sig"]) == want:
                        case = cand
                        improved = True
                        break
            except Exception:
                # a buggy shrinker must never turn into a false alarm or hide the original case
                return case, n_exec
        return case, n_exec


def main():
    ap = argparse.ArgumentParser()
    ap.add_argument("--prop")
    ap.add_argument("--wseed", type=int, default=0)
    ap.add_argument("--first", type=int, default=0)
    ap.add_argument("--count", type=int, default=1)
    ap.add_argument("--tier", default="quick")
    ap.add_argument("--seconds", type=float, default=30.0)
    ap.add_argument("--out", required=True)
    ap.add_argument("--replay")
    ap.add_argument("--fresh-minimise", help="replay file to minimise (prelude and case) in a pristine interpreter")
    ap.add_argument("--no-minimise", action="store_true")
    ap.add_argument("--only", type=int, default=None, help="run only run index j (determinism self-test)")
    args = ap.parse_args()
    faulthandler.enable()
    faulthandler.dump_traceback_later(max(60.0, args.seconds * 4 + 60), exit=True)
    sys.setrecursionlimit(4000)

    report = {"hashseed": os.environ.get("PYTHONHASHSEED"), "wseed": args.wseed, "runs": [],
              "violations": [], "harness_errors": [], "ok": True}
    if args.replay or args.fresh_minimise:
        with open(args.replay or args.fresh_minimise) as f:
            rp = json.load(f)
        w = World(rp["property"])
        # history of the interpreter: cases executed (and discarded) before the judged one
        prior = list(rp.get("prior_cases") or [])
        hist = rp.get("prior_runs")
        if hist:
            for j in hist["js"]:
                prng = random.Random(H(hist["wseed"], j))
                pcase = w.prop.gen(prng, hist["tier"])
                if prng.random() < TWICE_SHARE:
                    pcase["_twice"] = True
                if prng.random() < STALE_SHARE:
                    pcase["_stale"] = True
                if prng.random() < SPARSE_SHARE:
                    pcase["_sparse"] = True
                prior.append(json.loads(json.dumps(pcase)))
        if args.fresh_minimise:
            prior, mcase, n_exec = w.minimise_fresh(prior, rp["case"], rp["check_id"], rp["signature"])
            r = w.execute_fresh(prior + [mcase])
            if r.get("status") == "violation" and r.get("check_id") == rp["check_id"]:
                rp.pop("prior_runs", None)
                rp["prior_cases"] = prior
                rp["case"] = mcase
                rp["digest"] = r["digest"]
                rp["detail"] = r.get("detail") or rp.get("detail")
                rp["signature"] = r.get("sig") or rp.get("signature")
                rp.setdefault("shrink", {})["fresh_execs"] = n_exec
                if not prior:
                    rp.pop("prior_cases", None)
                with open(args.fresh_minimise, "w") as f:
                    json.dump(rp, f, indent=1)
            report["fresh_minimise"] = {"status": r.get("status"), "execs": n_exec, "prior": len(prior)}
            with open(args.out, "w") as f:
                json.dump(report, f)
            return
        for pc in prior:
            w.execute(pc)
        r = w.execute(rp["case"])
        report["replay"] = {"status": r["status"], "check_id": r.get("check_id"), "detail": r.get("detail"),
                            "sig": r.get("sig"), "digest": r["digest"], "trace": r.get("trace")}
        with open(args.out, "w") as f:
            json.dump(report, f)
        return

    w = World(args.prop)
    prop = w.prop
    t0 = time.time()
    agg_probes = {}
    agg_stats = {}
    agg_faults = {}
    agg_solver = {}
    orders = set()
    fps = {}
    samples = []
    digests = []
    n_done = n_skip = 0
    soft_hits = {}
    js = [args.only] if args.only is not None else range(args.first, args.first + args.count)
    for j in js:
        if time.time() - t0 > args.seconds and args.only is None:
            break
        rseed = H(args.wseed, j)
        rng = random.Random(rseed)
        try:
            case = prop.gen(rng, args.tier)
            if rng.random() < TWICE_SHARE:
                case["_twice"] = True
            if rng.random() < STALE_SHARE:
                case["_stale"] = True
            if rng.random() < SPARSE_SHARE:
                case["_sparse"] = True
            case = json.loads(json.dumps(case))
        except Exception:
            report["harness_errors"].append({"j": j, "rseed": rseed, "trace": "gen: " + traceback.format_exc()[-2000:]})
            continue
        r = w.execute(case)
        n_done += 1
        digests.append([j, r["digest"]])
        for k, v in r["probes"].items():
            agg_probes[k] = agg_probes.get(k, 0) + v
        for k, v in r["stats"].items():
            agg_stats[k] = agg_stats.get(k, 0) + v
        for k, v in r["faults_fired"].items():
            agg_faults[k] = agg_faults.get(k, 0) + v
        for k, v in r["solver"].items():
            agg_solver[k] = agg_solver.get(k, 0) + v
        pol = case.get("peer", {}).get("policy")
        if pol:
            agg_solver["policy:" + pol] = agg_solver.get("policy:" + pol, 0) + 1
        orders.update(tuple(o) if not isinstance(o, tuple) else o for o in map(lambda x: (x[0], tuple(x[1])), r["orders"]))
        for s in r["soft"]:
            key = s["known_id"]
            soft_hits.setdefault(key, {"n": 0, "example": s})["n"] += 1
        if r["status"] == "skip":
            n_skip += 1
        elif r["status"] == "harness_error":
            report["harness_errors"].append({"j": j, "rseed": rseed, "trace": r["trace"], "case": case})
        elif r["status"] == "violation":
            mcase, n_exec = (case, 0)
            if not args.no_minimise:
                mcase, n_exec = w.minimise(case, r["check_id"], r["sig"])
            mr = w.execute(mcase)
            if mr["status"] != "violation" or mr["check_id"] != r["check_id"]:
                mcase, mr = case, r  # should not happen; keep the original
            report["violations"].append({
                "j": j, "rseed": rseed, "check_id": mr["check_id"], "detail": mr["detail"], "sig": mr["sig"],
                "case": mcase, "orig_case": case, "digest": mr["digest"], "orig_size": len(json.dumps(case)),
                "min_size": len(json.dumps(mcase)), "shrink_execs": n_exec, "events": mr["events"][-25:],
            })
        if r["status"] in ("ok", "violation"):
            try:
                f = prop.fingerprint(case, r)
            except Exception:
                f = None
            if f is not None:
                fps[f] = fps.get(f, 0) + 1
        if len(samples) < 2 and r["status"] == "ok":
            try:
                samples.append(prop.sample(case, r))
            except Exception:
                samples.append({"case": case})
    report.update({
        "n_runs": n_done, "n_skip": n_skip, "wall_s": time.time() - t0, "probes": agg_probes,
        "stats": agg_stats, "faults_fired": agg_faults, "solver": agg_solver,
        "orders": sorted(orders), "fingerprints": sorted(fps), "samples": samples,
        "digests": digests, "soft_hits": soft_hits,
    })
    with open(args.out, "w") as f:
        json.dump(report, f)


if __name__ == "__main__":
    main()
