"""Self-test of the solver stub and of the reference all-SAT against brute force."""
import os
import random
import sys

HERE = os.path.dirname(os.path.abspath(__file__))
SIM = os.path.dirname(HERE)
sys.path.insert(0, os.path.join(SIM, "stubs"))
sys.path.insert(0, SIM)

from cgsim import peers, ref  # noqa: E402
from pysat.solvers import Cadical153  # noqa: E402


def main():
    rng = random.Random(12345)
    n_sat = n_unsat = 0
    for it in range(1500):
        nv = rng.randint(1, 10)
        ncl = rng.randint(0, 5 * nv)
        cls = []
        for _ in range(ncl):
            k = rng.randint(1, 3)
            cls.append([rng.choice((1, -1)) * rng.randint(1, nv) for _ in range(k)])
        pol = rng.choice(peers.SOLVER_POLICIES)
        peers.install(peers.PeerCtx(seed=it, policy=pol))
        s = Cadical153(bootstrap_with=cls)
        got = s.solve()
        want = ref.brute_force_sat(nv, cls)
        if got != want:
            print("MISMATCH sat", cls, got, want)
            return 1
        if got:
            n_sat += 1
            m = s.get_model()
            mx = max([abs(l) for c in cls for l in c], default=0)
            if len(m) != mx:
                print("model length", len(m), mx)
                return 1
            for c in cls:
                if not any((l > 0) == (m[abs(l) - 1] > 0) for l in c):
                    print("MODEL does not satisfy", cls, m)
                    return 1
            # blocking-clause enumeration over the first k variables == projected count
            proj = list(range(1, min(nv, mx) + 1))[: rng.randint(1, 4)]
            if proj and mx >= max(proj):
                want_n = ref.count_projected(nv, cls, proj)
                cnt = 0
                while s.solve():
                    m = s.get_model()
                    s.add_clause([-m[v - 1] for v in proj])
                    cnt += 1
                    if cnt > 100:
                        break
                brute = set()
                for bits in range(1 << mx):
                    if all(any(((bits >> (abs(l) - 1)) & 1) == (l > 0) for l in c) for c in cls):
                        brute.add(tuple((bits >> (v - 1)) & 1 for v in proj))
                if cnt != len(brute) or want_n != len(brute):
                    print("COUNT mismatch", cls, proj, cnt, want_n, len(brute))
                    return 1
        else:
            n_unsat += 1
        peers.uninstall()
    print(f"solver-stub selftest ok: {n_sat} sat / {n_unsat} unsat instances agree with brute force")
    return selftest_ref()


def selftest_ref():
    """The reference evaluators must agree with each other (three independent code paths):
    bit-parallel truth tables, pointwise evaluation, and the all-nodes consistency mask; the Kleene
    evaluator must agree with the binary one on binary inputs and be monotone in X."""
    from itertools import product
    from cgsim import gen as G
    rng = random.Random(4242)
    n_nets = 0
    for it in range(400):
        net = G.gen_net(rng, n_inputs=(1, 4), n_gates=(1, 8), types=G.swarm_types(rng), max_arity=4, constants=0.3,
                        bbs=rng.choice((0, 0, 1)))
        if len(net["nodes"]) > 13:
            continue
        free = ref.free_nodes(net)
        tts, _, full = ref.truth_tables(net, free)
        order = ref.topo_order(net)
        mask, names, _ = ref.consistency_mask(net)
        idx = {n: i for i, n in enumerate(names)}
        cnt = 0
        for bits in product((0, 1), repeat=len(free)):
            asg = dict(zip(free, bits))
            vals = ref.evaluate(net, asg, order)
            j = sum(b << i for i, b in enumerate(bits))
            for n in names:
                if ((tts[n] >> j) & 1) != vals[n]:
                    print("REF MISMATCH truth_tables vs evaluate", net, asg, n)
                    return 1
            i = sum(vals[n] << idx[n] for n in names)
            if not (mask >> i) & 1:
                print("REF MISMATCH consistency_mask rejects an evaluated valuation", net, asg)
                return 1
            cnt += 1
            if not net["bbs"]:
                kv = ref.kleene(net, asg, order)
                if any(kv[n] != vals[n] for n in names):
                    print("REF MISMATCH kleene vs evaluate on binary inputs", net, asg)
                    return 1
        if ref.popcount(mask) != cnt:
            print("REF MISMATCH consistency_mask has extra valuations for an acyclic net", net)
            return 1
        if not net["bbs"] and free:
            # monotonicity: replacing an input by X can only turn outputs into X, never flip them
            asg = {f: rng.getrandbits(1) for f in free}
            base = ref.kleene(net, asg, order)
            asg2 = dict(asg)
            asg2[rng.choice(free)] = ref.X
            kx = ref.kleene(net, asg2, order)
            if any(kx[n] != ref.X and kx[n] != base[n] for n in names):
                print("REF MISMATCH kleene not monotone", net, asg, asg2)
                return 1
        n_nets += 1
    print(f"reference-model selftest ok: truth tables, pointwise evaluation, consistency mask and Kleene evaluation agree on {n_nets} nets")
    return 0


if __name__ == "__main__":
    sys.exit(main())
