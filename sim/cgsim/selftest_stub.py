"""Self-test of the solver stub and of the reference all-SAT against brute force."""
import os
import random
import sys

HERE = os.path.dirname(os.path.abspath(__file__))
SIM = os.path.dirname(HERE)
sys.path.insert(0, os.path.join(SIM, "stubs"))
sys.path.insert(0, SIM)

from cgsim import peers, ref  # noqa: E402
from pysat.solvers import Cadical153  # noqa: E402


def main():
    rng = random.Random(12345)
    n_sat = n_unsat = 0
    for it in range(1500):
        nv = rng.randint(1, 10)
        ncl = rng.randint(0, 5 * nv)
        cls = []
        for _ in range(ncl):
            k = rng.randint(1, 3)
            cls.append([rng.choice((1, -1)) * rng.randint(1, nv) for _ in range(k)])
        pol = rng.choice(peers.SOLVER_POLICIES)
        peers.install(peers.PeerCtx(seed=it, policy=pol))
        s = Cadical153(bootstrap_with=cls)
        got = s.solve()
        want = ref.brute_force_sat(nv, cls)
        if got != want:
            print("MISMATCH sat", cls, got, want)
            return 1
        if got:
            n_sat += 1
            m = s.get_model()
            mx = max([abs(l) for c in cls for l in c], default=0)
            if len(m) != mx:
                print("model length", len(m), mx)
                return 1
            for c in cls:
                if not any((l > 0) == (m[abs(l) - 1] > 0) for l in c):
                    print("MODEL does not satisfy", cls, m)
                    return 1
            # blocking-clause enumeration over the first k variables == projected count
            proj = list(range(1, min(nv, mx) + 1))[: rng.randint(1, 4)]
            if proj and mx >= max(proj):
                want_n = ref.count_projected(nv, cls, proj)
                cnt = 0
                while s.solve():
                    m = s.get_model()
                    s.add_clause([-m[v - 1] for v in proj])
                    cnt += 1
                    if cnt > 100:
                        break
                brute = set()
                for bits in range(1 << mx):
                    if all(any(((bits >> (abs(l) - 1)) & 1) == (l > 0) for l in c) for c in cls):
                        brute.add(tuple((bits >> (v - 1)) & 1 for v in proj))
                if cnt != len(brute) or want_n != len(brute):
                    print("COUNT mismatch", cls, proj, cnt, want_n, len(brute))
                    return 1
        else:
            n_unsat += 1
        peers.uninstall()
    print(f"solver-stub selftest ok: {n_sat} sat / {n_unsat} unsat instances agree with brute force")
    return 0


if __name__ == "__main__":
    sys.exit(main())
