"""Core plumbing: seed derivation, violations, event log / digest, run context."""
import hashlib
import json
import random
from collections import Counter


def H(*parts):
    """Deterministic 64-bit hash of the parts (never Python's hash())."""
    s = json.dumps(parts, sort_keys=True, default=str).encode()
    return int(hashlib.sha256(s).hexdigest()[:16], 16)


def fp(obj):
    """Short fingerprint (hex) of a JSON-able object."""
    s = json.dumps(obj, sort_keys=True, default=str).encode()
    return hashlib.sha1(s).hexdigest()[:16]


class Violation(Exception):
    """A property oracle failed.

    check_id  : stable identifier of the oracle clause (e.g. 'C07.I7')
    sig       : dict of facts specific enough to tell two defects apart (used to match
                known findings); values are JSON scalars / lists
    detail    : human readable description
    """

    def __init__(self, prop, check_id, detail, sig=None):
        super().__init__(f"{check_id}: {detail}")
        self.prop = prop
        self.check_id = check_id
        self.detail = detail
        self.sig = dict(sig or {})


class StepLimit(BaseException):
    """Raised inside library code by `bounded` when the step budget is used up (BaseException: not swallowed)."""


def bounded(fn, max_lines, *a, **kw):
    """Liveness with a deterministic clock: run fn under sys.settrace and count executed source lines ("steps").
    Returns (result, steps); raises StepLimit from inside fn once max_lines is exceeded.  Unlike a wall-clock
    watchdog the verdict does not depend on the machine or its load."""
    import sys
    n = [0]

    def tr(frame, event, arg):
        if event == "line":
            n[0] += 1
            if n[0] > max_lines:
                raise StepLimit()
        return tr

    old = sys.gettrace()
    sys.settrace(tr)
    try:
        return fn(*a, **kw), n[0]
    finally:
        sys.settrace(old)


class RunTimeout(BaseException):
    """Raised by the per-run watchdog; a BaseException so that no `except Exception` in an oracle or in the
    library swallows it.  The run is counted as skipped."""


class Skip(Exception):
    """The generated case is outside the bounds of the oracle (counted as trivial)."""


def match_known(known, prop, check_id, sig):
    for e in known:
        if e.get("property") != prop or e.get("check_id") != check_id:
            continue
        if all(sig.get(k) == v for k, v in e.get("match", {}).items()):
            return e
    return None


class RunCtx:
    """Per-run context handed to a property's `run`."""

    def __init__(self, cg, peer, seams):
        self.cg = cg
        self.peer = peer
        self.seams = seams
        self.events = []
        self.probes = Counter()
        self.stats = Counter()
        self.orders = set()      # observed set-iteration orders: (k, perm tuple)
        self.soft = []           # step-local violations that matched nothing fatal (see launcher)
        self._h = hashlib.sha1()

    def log(self, *event):
        """Append to the event log.  Never draws randomness, never reads a clock."""
        s = json.dumps(event, default=str)
        self._h.update(s.encode())
        self._h.update(b"\n")
        if len(self.events) < 400:
            self.events.append(event)

    def violate(self, check_id, detail, sig=None, soft=False):
        """Report an oracle failure.  soft=True marks a *step-local* postcondition: if it matches
        an OPEN known finding it is recorded and the run continues from the state the library
        left (so known findings do not shadow later steps); otherwise it ends the run."""
        sig = dict(sig or {})
        if soft:
            e = match_known(getattr(self, "known", []), self.prop_id, check_id, sig)
            if e is not None:
                self.soft.append({"known_id": e["id"], "check_id": check_id, "detail": detail, "sig": sig})
                self.log("soft", check_id, e["id"])
                return
        raise Violation(self.prop_id, check_id, detail, sig)

    def call(self, check_id, sig, fn, *a, **kw):
        """Call library code in a place where the property requires a result: any exception is a
        violation (with the exception type in the signature), not a harness error."""
        self.warm(fn, *a, **kw)
        try:
            return fn(*a, **kw)
        except Violation:
            raise
        except Exception as e:
            import traceback
            tb = traceback.extract_tb(e.__traceback__)
            where = f"{tb[-1].filename.rsplit('/', 1)[-1]}:{tb[-1].lineno}" if tb else "?"
            self.violate(check_id, f"{getattr(fn, '__name__', fn)} raised {type(e).__name__}: {e} (at {where})",
                         dict(sig or {}, exc=type(e).__name__))

    def warm(self, fn, *a, **kw):
        if getattr(self, "stale", False) and getattr(fn, "__self__", None) is None:
            # history seam "this function has seen this object before, in another state": the first circuit among the
            # arguments is edited in place through the public mutators (one or two gates retyped, one output mark
            # flipped), the function is called and its outcome discarded, the edits are undone the same way, and only
            # then the judged call is made.  Finds per-function memos keyed by less than the function depends on.
            circ = next((x for x in a if hasattr(x, "graph") and hasattr(x, "blackboxes") and hasattr(x, "set_type")), None)
            if circ is not None:
                import random
                self._stale_calls = getattr(self, "_stale_calls", 0) + 1
                rng = random.Random(H(getattr(self.peer, "seed", 0), "stale-call", self._stale_calls))
                g = circ.graph
                multi = ("and", "nand", "or", "nor", "xor", "xnor")
                gates = sorted(n for n in g.nodes if g.nodes[n].get("type") in multi + ("buf", "not"))
                undo = []
                try:
                    for n in rng.sample(gates, min(len(gates), rng.randint(1, 2))):
                        t = g.nodes[n]["type"]
                        pool = ("buf", "not") if t in ("buf", "not") else multi
                        undo.append(("type", n, t))
                        circ.set_type(n, rng.choice([x for x in pool if x != t]))
                    if gates and rng.random() < 0.5:
                        n = rng.choice(gates)
                        had = "output" in g.nodes[n]
                        o = bool(g.nodes[n].get("output", False))
                        undo.append(("output", n, o, had))
                        circ.set_output(n, not o)
                    try:
                        scribble(fn(*a, **kw))
                    except Exception:
                        pass
                finally:
                    for u in reversed(undo):
                        if u[0] == "type":
                            circ.set_type(u[1], u[2])
                        else:
                            circ.set_output(u[1], u[2])
                            if not u[3]:
                                g.nodes[u[1]].pop("output", None)   # restore the exact representation
                self.probe("function_saw_object_before_in_other_state")
                self.log("stale-call", getattr(fn, "__name__", "?"))
        if getattr(self, "twice", False) and getattr(fn, "__self__", None) is None:
            # history seam "the same request served twice": a module-level library function is first called with the
            # very same argument objects, the caller edits whatever that call returned (as callers do with circuits
            # they own), and only the result of the second call is judged.  Finds results served from a cache that
            # the first caller can reach, arguments emptied by the first call, state left behind between calls.
            try:
                first = fn(*a, **kw)
            except Exception:
                first = None
            else:
                self.probe("called_twice_first_result_edited")
            scribble(first)
            self.log("twice", getattr(fn, "__name__", "?"))

    def probe(self, name, n=1):
        self.probes[name] += n

    def observe_order(self, seq):
        """Record the iteration order of a small set relative to sorted order."""
        seq = list(seq)
        k = len(seq)
        if 3 <= k <= 5:
            srt = sorted(seq)
            self.orders.add((k, tuple(srt.index(x) for x in seq)))

    def digest(self):
        return self._h.hexdigest()


def scribble(x, depth=0):
    """Edit a value the library returned, in place and recursively, the way a caller who owns it may."""
    if depth > 3 or x is None or isinstance(x, (str, bytes, int, float, bool)):
        return
    if hasattr(x, "graph") and hasattr(x, "blackboxes"):
        g = x.graph
        names = list(g.nodes)
        for n in names[:2]:
            g.nodes[n]["output"] = not g.nodes[n].get("output", False)
        if names:
            g.nodes[names[-1]]["type"] = "and" if g.nodes[names[-1]].get("type") == "nor" else "nor"
        g.add_node("scribble__n", type="input", output=True)
        if names:
            g.add_edge("scribble__n", names[0])
        if len(names) > 2:
            g.remove_node(names[1])
        try:
            x.blackboxes.clear()
            x.name = "scribbled"
        except Exception:
            pass
    elif isinstance(x, dict):
        for k in list(x)[:2]:
            scribble(x[k], depth + 1)
        for k in list(x)[:1]:
            x.pop(k)
        try:
            x["scribble__k"] = None
        except Exception:
            pass
    elif isinstance(x, list):
        for e in x[:3]:
            scribble(e, depth + 1)
        if x:
            x.pop()
        x.append("scribble__e")
    elif isinstance(x, set):
        for e in list(x)[:3]:
            scribble(e, depth + 1)
        if x:
            x.pop()
    elif isinstance(x, tuple):
        for e in x[:4]:
            scribble(e, depth + 1)
    elif hasattr(x, "clauses") and isinstance(getattr(x, "clauses"), list):
        x.clauses.append([1, -1])   # a CNF formula object handed out by sat.cnf


def state_digest(c):
    """Order-PRESERVING dump of a circuit (sensitive to hash order on purpose)."""
    g = c.graph
    h = hashlib.sha1()
    for n in g.nodes:
        h.update(repr((n, sorted(g.nodes[n].items(), key=str), list(g.predecessors(n)), list(g.successors(n)))).encode())
    h.update(repr(list(c.blackboxes)).encode())
    # set order as the library sees it
    h.update(repr(list(c.nodes())).encode())
    return h.hexdigest()[:12]


def rng_for(seed, *tag):
    return random.Random(H(seed, *tag))
