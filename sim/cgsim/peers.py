"""Peer context: the single place where every free choice and every injected
fault of the simulated peers (SAT solver, approxmc process, file system) is
decided.  One `PeerCtx` is installed per run; all its randomness comes from the
run seed, so a run is a pure function of (world hash seed, case).

Nothing in here reads a clock or real randomness.
"""
import errno
import io as _io
import os
import random
from collections import Counter

CTX = None

SOLVER_POLICIES = ("inputs_first", "random", "inputs_last", "prefer_true", "prefer_false")

FAULT_KINDS = (
    "import_formula",    # `from pysat.formula import ...` -> ImportError
    "import_solvers",    # `from pysat.solvers import ...` -> ImportError
    "solver_new",        # solver constructor -> RuntimeError
    "solve",             # solver.solve() -> RuntimeError
    "approxmc_missing",  # shutil.which("approxmc") -> None (library raises OSError)
    "approxmc_exit",     # non-zero exit -> CalledProcessError
    "approxmc_garbage",  # output without an `s mc` line -> ValueError in the library
    "fs_open",           # SimFS.open -> OSError(EACCES)
    "fs_write",          # k-th write on SimFS -> OSError(ENOSPC) after a short write
)


class PeerCtx:
    def __init__(self, seed=0, policy="inputs_first", faults=None):
        self.seed = seed
        self.rng = random.Random(seed)
        self.policy = policy
        # faults: {kind: [k, ...]}  -> the k-th (0-based) interaction of that kind fails
        self.faults = {k: set(v) for k, v in (faults or {}).items()}
        self.counts = Counter()
        self.fired = Counter()
        self.trace = []            # [(kind, index, fired)] - part of the run's event log
        self.approxmc_calls = []   # what the fake approxmc process saw
        self.solver_stats = Counter()
        self.fs = None

    def touch(self, kind):
        k = self.counts[kind]
        self.counts[kind] += 1
        hit = k in self.faults.get(kind, ())
        if hit:
            self.fired[kind] += 1
        if kind in FAULT_KINDS:
            self.trace.append((kind, k, hit))
        return hit


_DEFAULT = PeerCtx()


def ctx():
    return CTX if CTX is not None else _DEFAULT


def touch(kind):
    return ctx().touch(kind)


def install(c):
    global CTX
    CTX = c
    return c


def uninstall():
    global CTX
    CTX = None


# ----------------------------------------------------------------------------
# fake approxmc: shims for the module attributes `circuitgraph.sat.shutil` and
# `circuitgraph.sat.subprocess`
# ----------------------------------------------------------------------------
class CalledProcessError(Exception):
    def __init__(self, returncode, cmd):
        super().__init__(f"Command {cmd!r} returned non-zero exit status {returncode}.")
        self.returncode = returncode
        self.cmd = cmd


class ShutilShim:
    """Stands in for module `shutil` inside circuitgraph.sat."""

    def which(self, name):
        if name == "approxmc":
            if touch("approxmc_missing"):
                return None
            return "/sim/bin/approxmc"
        return None


def parse_dimacs(text):
    """Parse what a model counter would see.  Returns (nv, clauses, xors, ind)."""
    nv = 0
    clauses, xors, ind = [], [], None
    for line in text.split("\n"):
        s = line.strip()
        if not s:
            continue
        if s.startswith("c ind"):
            toks = s.split()[2:]
            vals = [int(t) for t in toks]
            if vals and vals[-1] == 0:
                vals = vals[:-1]
            ind = (ind or []) + vals
            continue
        if s.startswith("c"):
            continue
        if s.startswith("p"):
            parts = s.split()
            nv = max(nv, int(parts[2]))
            continue
        if s.startswith("x"):
            lits = [int(t) for t in s[1:].split()]
            if lits and lits[-1] == 0:
                lits = lits[:-1]
            xors.append(lits)
            for l in lits:
                nv = max(nv, abs(l))
            continue
        lits = [int(t) for t in s.split()]
        if not lits or lits[-1] != 0:
            raise ValueError(f"clause line not terminated by 0: {s!r}")
        lits = lits[:-1]
        clauses.append(lits)
        for l in lits:
            nv = max(nv, abs(l))
    return nv, clauses, xors, ind


class SubprocessShim:
    """Stands in for module `subprocess` inside circuitgraph.sat.

    `run` behaves like a child process: it re-opens the DIMACS path from argv
    with a fresh OS descriptor (so only bytes that actually reached the file are
    visible) and writes its report through the raw descriptor it was given as
    stdout.
    """

    CalledProcessError = CalledProcessError
    DEVNULL = -3
    PIPE = -1

    def run(self, cmd, stdout=None, stderr=None, check=False, **kw):
        c = ctx()
        path = cmd[-1]
        rec = {"cmd": list(cmd[:-1]), "path_exists": os.path.exists(path)}
        if not rec["path_exists"]:
            rec["text"] = None
            c.approxmc_calls.append(rec)
            self._emit(stdout, f"c ERROR: cannot open {path}\n")
            if check:
                raise CalledProcessError(255, cmd)
            return None
        fd = os.open(path, os.O_RDONLY)
        try:
            chunks = []
            while True:
                b = os.read(fd, 1 << 16)
                if not b:
                    break
                chunks.append(b)
        finally:
            os.close(fd)
        text = b"".join(chunks).decode("utf8", "replace")
        rec["text"] = text
        rec["bytes"] = len(text)
        c.approxmc_calls.append(rec)
        if touch("approxmc_exit"):
            self._emit(stdout, "c approxmc crashed\n")
            if check:
                raise CalledProcessError(1, cmd)
            return None
        # count exactly
        from cgsim import ref
        try:
            nv, clauses, xors, ind = parse_dimacs(text)
            n = ref.count_projected(nv, clauses, ind if ind is not None else list(range(1, nv + 1)), xors)
            rec["count"] = n
        except Exception as e:  # malformed instance -> behave like the tool: error out
            rec["error"] = repr(e)
            self._emit(stdout, f"c ERROR parsing: {e}\n")
            if check:
                raise CalledProcessError(2, cmd)
            return None
        chatter = "".join(f"c [appmc] chatter line {i} seed {c.rng.randrange(1000)}\n"
                          for i in range(c.rng.randrange(0, 6)))
        if touch("approxmc_garbage"):
            self._emit(stdout, chatter + "c no solution line\n")
            return None
        tail = "c finished\n" if c.rng.random() < 0.5 else ""
        self._emit(stdout, chatter + f"s SATISFIABLE\ns mc {n}\n" + tail)
        return None

    @staticmethod
    def _emit(stdout, s):
        if stdout is None or isinstance(stdout, int):
            return
        os.write(stdout.fileno(), s.encode("utf8"))


# ----------------------------------------------------------------------------
# SimFS: in-memory file system behind `circuitgraph.io.open`
# ----------------------------------------------------------------------------
class _SimFile:
    def __init__(self, fs, path, mode):
        self.fs, self.path, self.mode = fs, path, mode
        self.closed = False
        if "w" in mode:
            fs.files[path] = ""
            self.pos = 0
        else:
            self.pos = 0

    def write(self, s):
        if self.closed:
            raise ValueError("I/O operation on closed file")
        if "w" not in self.mode and "+" not in self.mode:
            raise _io.UnsupportedOperation("not writable")
        if touch("fs_write"):
            half = len(s) // 2
            self.fs.files[self.path] += s[:half]   # short (torn) write, then the error
            raise OSError(errno.ENOSPC, "No space left on device (simulated)", self.path)
        self.fs.files[self.path] += s
        self.fs.writes += 1
        return len(s)

    def read(self, n=-1):
        if self.closed:
            raise ValueError("I/O operation on closed file")
        data = self.fs.files[self.path]
        if n is None or n < 0:
            out = data[self.pos:]
            self.pos = len(data)
        else:
            out = data[self.pos:self.pos + n]
            self.pos += len(out)
        return out

    def __iter__(self):
        return iter(self.read().splitlines(True))

    def close(self):
        self.closed = True

    def flush(self):
        pass

    def __enter__(self):
        return self

    def __exit__(self, *a):
        self.close()
        return False


class SimFS:
    def __init__(self):
        self.files = {}
        self.opens = 0
        self.writes = 0

    def open(self, path, mode="r", *a, **kw):
        path = str(path)
        self.opens += 1
        if touch("fs_open"):
            raise OSError(errno.EACCES, "Permission denied (simulated)", path)
        if "r" in mode and "+" not in mode and path not in self.files:
            raise FileNotFoundError(errno.ENOENT, "No such file or directory (simulated)", path)
        return _SimFile(self, path, mode)


class Seams:
    """Installs / removes the module-attribute seams on the imported circuitgraph."""

    def __init__(self, cg):
        self.cg = cg
        self._saved = None

    def install(self, fs=None):
        import circuitgraph.sat as sat
        import circuitgraph.io as cio
        self._saved = (sat.shutil, sat.subprocess, cio.__dict__.get("open", None))
        sat.shutil = ShutilShim()
        sat.subprocess = SubprocessShim()
        if fs is not None:
            cio.open = fs.open
        return self

    def remove(self):
        import circuitgraph.sat as sat
        import circuitgraph.io as cio
        if self._saved:
            sat.shutil, sat.subprocess, o = self._saved
            if o is None:
                cio.__dict__.pop("open", None)
            else:
                cio.open = o
            self._saved = None
