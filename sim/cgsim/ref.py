"""Reference models (oracles).  Nothing here calls circuitgraph code.

The universal circuit representation ("net") is a plain dict
    {"name": str,
     "nodes": {node: [type, [fanin...], output_flag]},   # insertion-ordered
     "bbs":   {inst: [type_name, [input pins], [output pins]]}}
Blackbox pins appear in "nodes" as "<inst>.<pin>" with type bb_input / bb_output.
"""
from itertools import product

GATES = ("and", "nand", "or", "nor", "xor", "xnor", "buf", "not")
MULTI = ("and", "nand", "or", "nor", "xor", "xnor")
SUPPORTED = GATES + ("0", "1", "x", "input", "bb_input", "bb_output")
FREE_TYPES = ("input", "bb_output")


class RefError(Exception):
    """The reference model was asked something outside its stated bounds."""


# ----------------------------------------------------------------------------
# snapshots of real Circuit objects (reads the raw graph only)
# ----------------------------------------------------------------------------
def snapshot(c):
    g = c.graph
    nodes = {}
    for n in sorted(g.nodes, key=str):
        d = g.nodes[n]
        nodes[n] = [d.get("type"), sorted(g.predecessors(n), key=str), bool(d.get("output", False))]
    bbs = {}
    for inst in sorted(c.blackboxes):
        bb = c.blackboxes[inst]
        bbs[inst] = [bb.name, sorted(bb.inputs()), sorted(bb.outputs())]
    return {"name": c.name, "nodes": nodes, "bbs": bbs}


def deep_snapshot(c):
    """Order-insensitive but attribute-complete snapshot used by C19 (aliasing checks)."""
    g = c.graph
    nodes = {n: tuple(sorted((str(k), repr(v)) for k, v in g.nodes[n].items())) for n in g.nodes}
    edges = tuple(sorted(((u, v, tuple(sorted((str(k), repr(x)) for k, x in d.items())))
                          for u, v, d in g.edges(data=True)), key=repr))
    reg = tuple(sorted((k, id(v), getattr(v, "name", None), tuple(sorted(v.inputs())), tuple(sorted(v.outputs())))
                       for k, v in c.blackboxes.items()))
    gattr = tuple(sorted((str(k), repr(v)) for k, v in g.graph.items()))
    return (c.name, tuple(sorted(nodes.items(), key=repr)), edges, reg, gattr)


def canon(net):
    """Canonical, order-free form for equality comparison of two nets."""
    return (
        net["name"],
        tuple(sorted((n, t, tuple(sorted(fi)), bool(o)) for n, (t, fi, o) in net["nodes"].items())),
        tuple(sorted((i, t, tuple(sorted(a)), tuple(sorted(b))) for i, (t, a, b) in net["bbs"].items())),
    )


# History seam "the library has seen this object before, in another state" (set per run by the worker from the case):
# build() first materialises a variant of the net (same nodes and wires; one or two gates of another type, one output
# mark flipped), lets the library look at it (io sets, startpoints, cyclicity, topological order, filter_type, CNF),
# then turns it into the requested net IN PLACE through the public mutators set_type / set_output.  Everything the
# property then asks must be answered for the circuit as it is now.
STALE = {"on": False, "seed": 0, "used": 0}
# Representation seam: nodes that are not outputs carry no `output` attribute (circuits made by the fast Verilog reader
# or wrapped around a hand-built graph look like this; Circuit.is_output() defines a missing mark as False).
SPARSE = {"on": False}


def _build_stale(cgmod, net):
    import random
    rng = random.Random(STALE["seed"])
    nodes = net["nodes"]
    variant = {n: [t, o] for n, (t, fi, o) in nodes.items()}
    gl = sorted(n for n, (t, fi, o) in nodes.items() if t in GATES)
    for n in rng.sample(gl, min(len(gl), rng.randint(1, 2))):
        t = nodes[n][0]
        pool = ("buf", "not") if t in ("buf", "not") else MULTI
        variant[n][0] = rng.choice([x for x in pool if x != t])
    flippable = sorted(n for n, (t, fi, o) in nodes.items() if t in GATES or t == "input")
    if flippable:
        n = rng.choice(flippable)
        variant[n][1] = not variant[n][1]
    c = cgmod.Circuit(name=net["name"])
    g = c.graph
    for n, (t, fi, o) in nodes.items():
        g.add_node(n, type=variant[n][0], output=bool(variant[n][1]))
    for n, (t, fi, o) in nodes.items():
        for f in fi:
            g.add_edge(f, n)
    for inst, (tname, ins, outs) in net["bbs"].items():
        c.blackboxes[inst] = cgmod.BlackBox(tname, list(ins), list(outs))
    looks = [c.inputs, c.outputs, c.io, c.startpoints, c.endpoints, c.is_cyclic, c.topo_sort, c.nodes,
             lambda: c.filter_type(["and", "or", "xor", "nand", "nor", "xnor", "buf", "not"]),
             lambda: [c.type(n) for n in c.nodes()], lambda: [c.is_output(n) for n in c.nodes()],
             lambda: cgmod.sat.cnf(c)]
    for look in looks:
        try:
            r = look()
            if hasattr(r, "__next__"):
                list(r)
        except Exception:
            pass
    for n, (t, fi, o) in nodes.items():
        if variant[n][0] != t:
            c.set_type(n, t)
        if bool(variant[n][1]) != bool(o):
            c.set_output(n, bool(o))
    STALE["used"] += 1
    return c


def build(cgmod, net, sparse=False):
    """Materialise a net as a circuitgraph.Circuit directly on the graph (no construction API).
    sparse: nodes that are not outputs carry no `output` attribute at all, as in circuits made by the fast
    Verilog reader or by Circuit(graph=g) from a hand-built graph (is_output() treats a missing key as False)."""
    if STALE["on"] and not sparse:
        return _build_stale(cgmod, net)
    if SPARSE["on"]:
        sparse = True
    c = cgmod.Circuit(name=net["name"])
    g = c.graph
    for n, (t, fi, o) in net["nodes"].items():
        if sparse and not o:
            g.add_node(n, type=t)
        else:
            g.add_node(n, type=t, output=bool(o))
    for n, (t, fi, o) in net["nodes"].items():
        for f in fi:
            g.add_edge(f, n)
    for inst, (tname, ins, outs) in net["bbs"].items():
        c.blackboxes[inst] = cgmod.BlackBox(tname, list(ins), list(outs))
    return c


# ----------------------------------------------------------------------------
# wiring rules (the legality rules of C07 / lint-cleanliness), on a net
# ----------------------------------------------------------------------------
def wiring_violations(net, undriven=False, pins=True):
    out = []
    nodes = net["nodes"]
    fanout = {n: [] for n in nodes}
    for n, (t, fi, o) in nodes.items():
        for f in fi:
            if f in fanout:
                fanout[f].append(n)
    for n, (t, fi, o) in nodes.items():
        if t not in SUPPORTED:
            out.append(("I5", n, f"unsupported type {t!r}"))
            continue
        if t in ("input", "0", "1", "x", "bb_output") and fi:
            out.append(("I1", n, f"{t} has fan-in {fi}"))
        if t in ("buf", "not", "bb_input") and len(fi) > 1:
            out.append(("I2", n, f"{t} has {len(fi)} fan-in"))
        if t == "bb_input" and fanout[n]:
            out.append(("I3", n, f"bb_input has fan-out {fanout[n]}"))
        if t == "bb_output":
            if len(fanout[n]) > 1:
                out.append(("I4", n, f"bb_output drives {len(fanout[n])} nodes"))
            for v in fanout[n]:
                if nodes[v][0] != "buf":
                    out.append(("I4", n, f"bb_output drives non-buf {v}"))
        if undriven and t in GATES + ("bb_input",) and not fi:
            out.append(("U", n, f"{t} undriven"))
    if pins:
        for inst, (tname, ins, outs) in net["bbs"].items():
            for p in ins:
                pn = f"{inst}.{p}"
                if pn not in nodes:
                    out.append(("I6m", pn, f"missing pin of instance {inst}"))
                elif nodes[pn][0] != "bb_input":
                    out.append(("I6t", pn, f"pin has type {nodes[pn][0]}, of instance {inst}"))
            for p in outs:
                pn = f"{inst}.{p}"
                if pn not in nodes:
                    out.append(("I6m", pn, f"missing pin of instance {inst}"))
                elif nodes[pn][0] != "bb_output":
                    out.append(("I6t", pn, f"pin has type {nodes[pn][0]}, of instance {inst}"))
    return out


def is_lint_clean(net):
    if wiring_violations(net, undriven=True):
        return False
    for n in net["nodes"]:
        if "." in n and n.split(".")[0] not in net["bbs"]:
            return False
    return True


def fanout_map(net):
    fo = {n: [] for n in net["nodes"]}
    for n, (t, fi, o) in net["nodes"].items():
        for f in fi:
            fo[f].append(n)
    return fo


def topo_order(net):
    """Kahn.  Returns None if cyclic."""
    nodes = net["nodes"]
    indeg = {n: len(set(fi)) for n, (t, fi, o) in nodes.items()}
    fo = {n: set() for n in nodes}
    for n, (t, fi, o) in nodes.items():
        for f in fi:
            fo[f].add(n)
    ready = sorted(n for n, d in indeg.items() if d == 0)
    order = []
    while ready:
        n = ready.pop()
        order.append(n)
        for v in sorted(fo[n]):
            indeg[v] -= 1
            if indeg[v] == 0:
                ready.append(v)
    return order if len(order) == len(nodes) else None


def is_cyclic(net):
    return topo_order(net) is None


def free_nodes(net):
    """Nodes the semantics leaves unconstrained: inputs, bb outputs, undriven buf/not/bb_input."""
    out = []
    for n, (t, fi, o) in net["nodes"].items():
        if t in FREE_TYPES or (t in ("buf", "not", "bb_input") and not fi):
            out.append(n)
    return sorted(out)


def startpoints(net):
    return sorted(n for n, (t, fi, o) in net["nodes"].items() if t in FREE_TYPES)


def outputs(net):
    return sorted(n for n, (t, fi, o) in net["nodes"].items() if o)


def inputs(net):
    return sorted(n for n, (t, fi, o) in net["nodes"].items() if t == "input")


def transitive_fanin(net, targets):
    seen = set()
    stack = list(targets)
    while stack:
        n = stack.pop()
        for f in net["nodes"][n][1]:
            if f not in seen:
                seen.add(f)
                stack.append(f)
    return seen


# ----------------------------------------------------------------------------
# Boolean gate semantics on bit-vectors (Python ints used as truth tables)
# ----------------------------------------------------------------------------
def gate_tt(t, ins, full):
    """Truth table of a gate of type t over operand truth tables `ins`; `full` = all-ones mask."""
    if t in ("buf", "bb_input"):
        return ins[0]
    if t == "not":
        return ins[0] ^ full
    if t in ("and", "nand"):
        r = full
        for x in ins:
            r &= x
        return r if t == "and" else r ^ full
    if t in ("or", "nor"):
        r = 0
        for x in ins:
            r |= x
        return r if t == "or" else r ^ full
    if t in ("xor", "xnor"):
        r = 0
        for x in ins:
            r ^= x
        return r if t == "xor" else r ^ full
    raise RefError(f"no semantics for type {t}")


def var_tt(i, k):
    """Truth table (as int with 2^k bits) of variable i among k variables."""
    block = (1 << (1 << i)) - 1          # 2^i ones
    period = 1 << (i + 1)
    reps = (1 << k) // period
    unit = block << (1 << i)             # zeros then ones within one period
    r = 0
    for j in range(reps):
        r |= unit << (j * period)
    return r


_VAR_CACHE = {}


def var_tts(k):
    if k not in _VAR_CACHE:
        _VAR_CACHE[k] = [var_tt(i, k) for i in range(k)]
    return _VAR_CACHE[k]


def truth_tables(net, free=None, fixed=None, k=None):
    """Acyclic evaluation.  Returns ({node: tt}, free_order, full_mask).

    free: ordered list of nodes treated as independent variables (default free_nodes).
    fixed: {node: tt} overriding the value of some nodes (used for substitution).
    'x' constants are rejected.
    """
    order = topo_order(net)
    if order is None:
        raise RefError("truth_tables on cyclic net")
    if free is None:
        free = free_nodes(net)
    if k is None:
        k = len(free)
    if k > 16:
        raise RefError(f"too many free variables ({k})")
    full = (1 << (1 << k)) - 1
    vt = var_tts(k)
    tts = {}
    idx = {n: i for i, n in enumerate(free)}
    fixed = fixed or {}
    for n in order:
        t, fi, o = net["nodes"][n]
        if n in fixed:
            tts[n] = fixed[n]
        elif n in idx:
            tts[n] = vt[idx[n]]
        elif t == "0":
            tts[n] = 0
        elif t == "1":
            tts[n] = full
        elif t == "x":
            raise RefError("x constant has no Boolean semantics")
        elif not fi:
            raise RefError(f"undriven {t} node {n} not declared free")
        else:
            tts[n] = gate_tt(t, [tts[f] for f in fi], full)
    return tts, list(free), full


def gate_val(t, vals):
    if t in ("buf", "bb_input"):
        return vals[0]
    if t == "not":
        return 1 - vals[0]
    if t == "and":
        return int(all(vals))
    if t == "nand":
        return 1 - int(all(vals))
    if t == "or":
        return int(any(vals))
    if t == "nor":
        return 1 - int(any(vals))
    if t == "xor":
        return sum(vals) & 1
    if t == "xnor":
        return 1 - (sum(vals) & 1)
    raise RefError(t)


def evaluate(net, assign, order=None):
    """Evaluate an acyclic net under {free node: 0/1}; returns {node: 0/1}."""
    order = order or topo_order(net)
    vals = {}
    for n in order:
        t, fi, o = net["nodes"][n]
        if n in assign:
            vals[n] = int(bool(assign[n]))
        elif t == "0":
            vals[n] = 0
        elif t == "1":
            vals[n] = 1
        elif t in FREE_TYPES or not fi:
            raise RefError(f"no value for free node {n}")
        else:
            vals[n] = gate_val(t, [vals[f] for f in fi])
    return vals


# ----------------------------------------------------------------------------
# consistent valuations of (possibly cyclic) nets: every node is a variable
# ----------------------------------------------------------------------------
def consistency_mask(net):
    """Bit i of the result is 1 iff valuation i (bit j of i = value of node j in sorted order)
    is consistent.  Returns (mask, node_order, full)."""
    names = sorted(net["nodes"])
    k = len(names)
    if k > 16:
        raise RefError(f"consistency_mask: {k} nodes")
    full = (1 << (1 << k)) - 1
    vt = var_tts(k)
    idx = {n: i for i, n in enumerate(names)}
    mask = full
    for n in names:
        t, fi, o = net["nodes"][n]
        v = vt[idx[n]]
        if t == "0":
            mask &= v ^ full
        elif t == "1":
            mask &= v
        elif t == "x":
            raise RefError("x constant")
        elif t in FREE_TYPES or not fi:
            if t in MULTI and not fi:
                raise RefError("undriven multi-input gate")
            continue
        else:
            f = gate_tt(t, [vt[idx[x]] for x in fi], full)
            mask &= (v ^ f) ^ full
    return mask, names, full


def project_exists(mask, k, keep):
    """Existentially quantify all variables not in `keep` (list of variable indices).
    Returns a mask in the same 2^k space that does not depend on the removed variables."""
    for i in range(k):
        if i in keep:
            continue
        sh = 1 << i
        v = var_tts(k)[i]
        lo = mask & ~v
        hi = mask & v
        both = lo | (hi >> sh)
        mask = both | (both << sh)
    return mask


def popcount(x):
    return bin(x).count("1")


def constrain(mask, k, idx, assumptions):
    vt = var_tts(k)
    full = (1 << (1 << k)) - 1
    for n, val in assumptions.items():
        v = vt[idx[n]]
        mask &= v if val else (v ^ full)
    return mask


# ----------------------------------------------------------------------------
# Kleene three-valued evaluation.  Values: 0, 1, 'X'
# ----------------------------------------------------------------------------
X = "X"


def kleene_gate(t, vals):
    if t in ("buf", "bb_input"):
        return vals[0]
    if t == "not":
        return X if vals[0] == X else 1 - vals[0]
    if t in ("and", "nand"):
        if any(v == 0 for v in vals):
            r = 0
        elif any(v == X for v in vals):
            r = X
        else:
            r = 1
        if t == "nand" and r != X:
            r = 1 - r
        return r
    if t in ("or", "nor"):
        if any(v == 1 for v in vals):
            r = 1
        elif any(v == X for v in vals):
            r = X
        else:
            r = 0
        if t == "nor" and r != X:
            r = 1 - r
        return r
    if t in ("xor", "xnor"):
        if any(v == X for v in vals):
            return X
        r = sum(vals) & 1
        return r if t == "xor" else 1 - r
    raise RefError(t)


def kleene(net, assign, order=None):
    order = order or topo_order(net)
    vals = {}
    for n in order:
        t, fi, o = net["nodes"][n]
        if n in assign:
            vals[n] = assign[n]
        elif t == "0":
            vals[n] = 0
        elif t == "1":
            vals[n] = 1
        else:
            vals[n] = kleene_gate(t, [vals[f] for f in fi])
    return vals


# ----------------------------------------------------------------------------
# CNF all-SAT, independent of the solver stub
# ----------------------------------------------------------------------------
def _simplify(clauses, lit):
    out = []
    for c in clauses:
        if lit in c:
            continue
        if -lit in c:
            c = [l for l in c if l != -lit]
            if not c:
                return None
        out.append(c)
    return out


def _unit_propagate(clauses, assign):
    while True:
        unit = None
        for c in clauses:
            if len(c) == 1:
                unit = c[0]
                break
        if unit is None:
            return clauses
        assign[abs(unit)] = unit > 0
        clauses = _simplify(clauses, unit)
        if clauses is None:
            return None


def _sat(clauses):
    assign = {}
    clauses = _unit_propagate(clauses, assign)
    if clauses is None:
        return False
    if not clauses:
        return True
    # branch on the first literal of the shortest clause
    c = min(clauses, key=len)
    l = c[0]
    for lit in (l, -l):
        s = _simplify(clauses, lit)
        if s is not None and _sat(s):
            return True
    return False


def xor_to_clauses(xors, nv):
    """Encode xor constraints (x l1 l2 .. => l1^l2^..=1) as plain clauses (direct encoding)."""
    out = []
    for lits in xors:
        n = len(lits)
        if n > 12:
            raise RefError("xor clause too long")
        for signs in product((1, -1), repeat=n):
            # forbid assignments with even parity of true literals: clause is violated exactly
            # when every literal in it is false.
            neg = sum(1 for s in signs if s == -1)
            # clause = [s_i * l_i]; it is false when l_i = (s_i == -1) for all i, i.e. `neg` literals true
            if neg % 2 == 0:
                out.append([s * l for s, l in zip(signs, lits)])
    return out


class _Prop:
    """Counter-based unit propagation with undo (own code; independent of the solver stub)."""

    def __init__(self, nv, clauses):
        self.cl = clauses
        self.occ = {}
        for ci, c in enumerate(clauses):
            for l in c:
                self.occ.setdefault(l, []).append(ci)
        self.nsat = [0] * len(clauses)
        self.nfalse = [0] * len(clauses)
        self.val = [0] * (nv + 1)
        self.trail = []

    def assign(self, lit):
        queue = [lit]
        ok = True
        val, occ, cl, nsat, nfalse = self.val, self.occ, self.cl, self.nsat, self.nfalse
        while queue:
            l = queue.pop()
            v = abs(l)
            s = 1 if l > 0 else -1
            if val[v]:
                if val[v] != s:
                    ok = False
                continue
            val[v] = s
            self.trail.append(l)
            for ci in occ.get(l, ()):
                nsat[ci] += 1
            for ci in occ.get(-l, ()):
                nfalse[ci] += 1
                if nsat[ci] == 0:
                    c = cl[ci]
                    rem = len(c) - nfalse[ci]
                    if rem == 0:
                        ok = False
                    elif rem == 1 and ok:
                        for x in c:
                            if val[abs(x)] == 0:
                                queue.append(x)
                                break
            if not ok:
                queue = []
        return ok

    def undo(self, n):
        val, occ, nsat, nfalse = self.val, self.occ, self.nsat, self.nfalse
        while len(self.trail) > n:
            l = self.trail.pop()
            val[abs(l)] = 0
            for ci in occ.get(l, ()):
                nsat[ci] -= 1
            for ci in occ.get(-l, ()):
                nfalse[ci] -= 1

    def satisfiable_rest(self):
        """Is the current partial assignment extendable to a model?  Restores the trail."""
        target = None
        for ci, c in enumerate(self.cl):
            if self.nsat[ci] == 0:
                target = c
                break
        if target is None:
            return True
        mark = len(self.trail)
        for x in target:
            if self.val[abs(x)] == 0:
                if self.assign(x) and self.satisfiable_rest():
                    self.undo(mark)
                    return True
                self.undo(mark)
        return False


def enumerate_projected(nv, clauses, proj, xors=(), limit=1 << 14):
    """All assignments to `proj` (list of variables) that extend to a model.  Returns a set of
    tuples of bools in the order of `proj`."""
    cls = []
    for c in clauses:
        s = set(c)
        if any(-l in s for l in s):
            continue
        if not s:
            return set()
        cls.append(list(dict.fromkeys(c)))
    cls += xor_to_clauses(list(xors), nv)
    proj = list(dict.fromkeys(proj))
    nv = max([nv] + [abs(l) for c in cls for l in c] + [abs(v) for v in proj])
    P = _Prop(nv, cls)
    results = set()
    for c in cls:
        if len(c) == 1:
            if not P.assign(c[0]):
                return results

    def rec(i):
        while i < len(proj) and P.val[proj[i]] != 0:
            i += 1
        if i >= len(proj):
            if P.satisfiable_rest():
                results.add(tuple(P.val[v] > 0 for v in proj))
                if len(results) > limit:
                    raise RefError("too many projected models")
            return
        v = proj[i]
        mark = len(P.trail)
        for lit in (v, -v):
            if P.assign(lit):
                rec(i + 1)
            P.undo(mark)

    rec(0)
    return results


def count_projected(nv, clauses, proj, xors=()):
    return len(enumerate_projected(nv, clauses, proj, xors))


def brute_force_sat(nv, clauses):
    """Exhaustive satisfiability (self-test cross-check for the solver stub); nv <= 16."""
    for bits in range(1 << nv):
        ok = True
        for c in clauses:
            if not any(((bits >> (abs(l) - 1)) & 1) == (1 if l > 0 else 0) for l in c):
                ok = False
                break
        if ok:
            return True
    return False


def depth_map(net):
    """Longest path length from any source to each node (acyclic nets)."""
    d = {}
    for n in topo_order(net):
        fi = net["nodes"][n][1]
        d[n] = 1 + max(d[f] for f in fi) if fi else 0
    return d


def max_fanin(net):
    return max([len(v[1]) for v in net["nodes"].values()] + [0])


def max_fanout(net):
    return max([len(v) for v in fanout_map(net).values()] + [0])


def compare_functions(net_a, net_b, nodes, free=None, rename=None):
    """Return the first node among `nodes` whose function differs between net_a and net_b
    (both acyclic, evaluated over the same ordered free list), or None."""
    if free is None:
        free = free_nodes(net_a)
    ta, _, _ = truth_tables(net_a, free)
    tb, _, _ = truth_tables(net_b, free)
    for n in nodes:
        m = rename.get(n, n) if rename else n
        if m not in tb:
            return (n, "missing")
        if ta[n] != tb[m]:
            return (n, "differs")
    return None


def witness(tt_a, tt_b, free):
    """A valuation of `free` on which two truth tables differ."""
    d = tt_a ^ tt_b
    if not d:
        return None
    i = (d & -d).bit_length() - 1
    return {n: (i >> j) & 1 for j, n in enumerate(free)}
