"""Fan worlds out over the cores, merge their reports, decide the exit code, write evidence."""
import argparse
import importlib
import json
import os
import shutil
import subprocess
import sys
import tempfile
import time

from cgsim.core import H, match_known

PY = "/venv/bin/python"
WORKER = os.path.join(os.path.dirname(os.path.abspath(__file__)), "worker.py")
CLAIMED = ["C01", "C03", "C04", "C05", "C06", "C07", "C08", "C09", "C10", "C11", "C15", "C16", "C17", "C18", "C19"]

COMPONENTS_REAL = ["circuitgraph (all modules, from the /repo working tree, no hooks)", "networkx 3.6.1",
                   "lark 1.3.1", "CPython 3.12 set/dict iteration under PYTHONHASHSEED"]
COMPONENTS_STUB = ["pysat.formula.IDPool/CNF (in-process stub)", "pysat.solvers.Cadical153 (seeded DPLL stub)",
                   "approxmc executable (exact projected counter behind circuitgraph.sat.subprocess/shutil)",
                   "file system for to_file/from_file (SimFS behind circuitgraph.io.open)",
                   "identity hash of Circuit objects (drawn from the run PRNG)"]


def world_env(hashseed, repo, root):
    return {
        "PATH": "/usr/bin:/bin",
        "HOME": "/tmp",
        "LANG": "C.UTF-8",
        "PYTHONHASHSEED": str(hashseed),
        "PYTHONDONTWRITEBYTECODE": "1",
        "CG_REPO": repo,
        "CG_KNOWN": os.environ.get("CG_KNOWN", os.path.join(root, "known_findings.json")),
    }


def spawn(args, hashseed, repo, root, kill_after):
    cmd = ["timeout", "-k", "5", str(int(kill_after)), PY, "-X", "faulthandler", WORKER] + args
    return subprocess.Popen(cmd, env=world_env(hashseed, repo, root), stdout=subprocess.PIPE,
                            stderr=subprocess.STDOUT, cwd="/tmp")


def run_worlds(jobs_spec, repo, root, jobs=16):
    """jobs_spec: list of dict(args=[...], hashseed=int, out=path, kill=int, tag=any).
    Returns list of (spec, report or None, exitcode, output)."""
    pending = list(jobs_spec)
    running = []
    done = []
    while pending or running:
        while pending and len(running) < jobs:
            s = pending.pop(0)
            p = spawn(s["args"] + ["--out", s["out"]], s["hashseed"], repo, root, s["kill"])
            running.append((s, p))
        still = []
        for s, p in running:
            rc = p.poll()
            if rc is None:
                still.append((s, p))
                continue
            out = p.stdout.read().decode("utf8", "replace")
            rep = None
            if rc == 0 and os.path.exists(s["out"]):
                try:
                    with open(s["out"]) as f:
                        rep = json.load(f)
                except Exception as e:
                    out += f"\n[launcher] unreadable report: {e}"
            done.append((s, rep, rc, out))
        running = still
        if running:
            time.sleep(0.02)
    return done


def load_known(root):
    p = os.environ.get("CG_KNOWN", os.path.join(root, "known_findings.json"))
    try:
        with open(p) as f:
            return json.load(f).get("findings", [])
    except FileNotFoundError:
        return []


def cmd_run(a, root):
    prop_id = a.prop
    tier = a.tier or os.environ.get("VERIF_TIER") or "quick"
    seed = int(os.environ.get("VERIF_SEED", a.seed if a.seed is not None else 1))
    repo = os.environ.get("CG_REPO", "/repo")
    sys.path.insert(0, os.path.join(root, "sim", "stubs"))
    prop = importlib.import_module(f"cgsim.props.{prop_id.lower()}")
    cfg = dict(prop.QUICK if tier == "quick" else prop.THOROUGH)
    if a.worlds:
        cfg["worlds"] = a.worlds
    if a.runs:
        cfg["runs"] = a.runs
    if a.seconds:
        cfg["seconds"] = a.seconds
    print(f"VERIF_SEED={seed} property={prop_id} tier={tier} worlds={cfg['worlds']} runs/world<={cfg['runs']} "
          f"seconds/world<={cfg['seconds']} repo={repo}", flush=True)
    t0 = time.time()
    scratch = tempfile.mkdtemp(prefix=f"cgsim_{prop_id}_")
    rc = 2
    try:
        rc = _run(prop_id, prop, tier, seed, cfg, repo, root, scratch, t0, a)
    finally:
        shutil.rmtree(scratch, ignore_errors=True)
    return rc


def _run(prop_id, prop, tier, seed, cfg, repo, root, scratch, t0, a):
    specs = []
    for i in range(cfg["worlds"]):
        w = H(seed, prop_id, i)
        specs.append({
            "args": ["--prop", prop_id, "--wseed", str(w), "--first", "0", "--count", str(cfg["runs"]),
                     "--tier", tier, "--seconds", str(cfg["seconds"])],
            "hashseed": w % (2 ** 32), "out": os.path.join(scratch, f"w{i}.json"),
            "kill": cfg["seconds"] * 4 + 90, "tag": i, "wseed": w,
        })
    results = run_worlds(specs, repo, root, jobs=a.jobs)
    known = load_known(root)
    open_known = [e for e in known if e.get("status") == "open"]

    n_runs = n_skip = 0
    probes, stats, faults, solver = {}, {}, {}, {}
    orders = set()
    fps = set()
    samples = []
    harness = []
    violations = []
    soft_hits = {}
    hashseeds = []
    digest_set = set()
    for s, rep, rc, out in sorted(results, key=lambda r: r[0]["tag"]):
        if rep is None:
            harness.append(f"world {s['tag']} (hashseed {s['hashseed']}) exit={rc}: {out[-1500:]}")
            continue
        hashseeds.append(s["hashseed"])
        n_runs += rep["n_runs"]
        n_skip += rep["n_skip"]
        for dst, src in ((probes, rep["probes"]), (stats, rep["stats"]), (faults, rep["faults_fired"]), (solver, rep["solver"])):
            for k, v in src.items():
                dst[k] = dst.get(k, 0) + v
        orders.update((o[0], tuple(o[1])) for o in rep["orders"])
        digest_set.update(d[1] for d in rep.get("digests", []))
        fps.update(rep["fingerprints"])
        if len(samples) < 3:
            samples.extend(rep["samples"][:1])
        for he in rep["harness_errors"]:
            harness.append(f"world {s['tag']} run {he.get('j')}: {he['trace'][-1200:]}")
        for v in rep["violations"]:
            v = dict(v)
            v["hashseed"] = s["hashseed"]
            v["wseed"] = s["wseed"]
            violations.append(v)
        for k, h in rep["soft_hits"].items():
            soft_hits.setdefault(k, {"n": 0, "example": h["example"]})["n"] += h["n"]

    # classify violations
    sig_key = getattr(prop, "sig_key", lambda s: None)
    known_hit = {}
    unknown = {}
    for v in violations:
        e = match_known(open_known, prop_id, v["check_id"], v["sig"])
        if e is not None:
            known_hit.setdefault(e["id"], {"entry": e, "n": 0, "example": v})["n"] += 1
        else:
            key = (v["check_id"], json.dumps(sig_key(v["sig"]), default=str))
            if key not in unknown or v["min_size"] < unknown[key]["min_size"]:
                v["count"] = unknown.get(key, {}).get("count", 0) + 1
                unknown[key] = v
            else:
                unknown[key]["count"] += 1
    for k, h in soft_hits.items():
        e = next((e for e in open_known if e["id"] == k), None)
        if e is not None:
            known_hit.setdefault(k, {"entry": e, "n": 0, "example": h["example"]})["n"] += h["n"]

    rc = 0
    replay_dir = os.environ.get("CG_REPLAY_DIR", os.path.join(root, "replays"))
    os.makedirs(replay_dir, exist_ok=True)
    lines = []
    # every open finding of this property carries a witness (the specific input and world that fail); it is replayed
    # on every run, so the KNOWN-FINDING line does not depend on the sampled runs happening to hit the defect again
    witness = {}
    for e in open_known:
        if e.get("property") != prop_id or "witness" not in e:
            continue
        wpath = os.path.join(scratch, f"witness_{e['id']}.json")
        with open(wpath, "w") as f:
            json.dump({"property": prop_id, "check_id": e["check_id"], "case": e["witness"]["case"], "digest": "",
                       "world": {"pythonhashseed": e["witness"]["pythonhashseed"]}}, f)
        _, r = replay_file(wpath, repo, root, scratch)
        witness[e["id"]] = (r.get("status") == "violation" and
                            match_known([e], prop_id, r.get("check_id"), r.get("sig") or {}) is not None)
        if witness[e["id"]]:
            known_hit.setdefault(e["id"], {"entry": e, "n": 0, "example": None})
    for kid, h in sorted(known_hit.items()):
        how = f"hit {h['n']}x in the sampled runs"
        if kid in witness:
            how = ("witness input still fails; " if witness[kid] else "witness input no longer fails; ") + how
        lines.append(f"KNOWN-FINDING: property={prop_id} {kid}: {h['entry']['what']} ({how})")
    for kid, okw in sorted(witness.items()):
        if not okw and kid not in known_hit:
            lines.append(f"note: the witness input of known finding {kid} no longer fails on this tree and no sampled run hit it")
    replay_verified = {}
    for key, v in sorted(unknown.items(), key=lambda kv: kv[0]):
        path = os.path.join(replay_dir, f"{prop_id}-{v['rseed']:016x}.json")
        rp = {"property": prop_id, "check_id": v["check_id"], "signature": v["sig"], "detail": v["detail"],
              "world": {"pythonhashseed": v["hashseed"], "wseed": v["wseed"], "run_index": v["j"]},
              "verif_seed": seed, "case": v["case"], "digest": v["digest"], "events_tail": v.get("events"),
              "shrink": {"orig_bytes": v["orig_size"], "min_bytes": v["min_size"], "execs": v["shrink_execs"]},
              "seen_in_runs": v.get("count", 1)}
        with open(path, "w") as f:
            json.dump(rp, f, indent=1)
        ok, info = replay_file(path, repo, root, scratch)
        if not ok and info.get("status") != "violation":
            # the failure needs the history of the interpreter it happened in (state that an earlier call left behind
            # in the library: a mutated default argument, a module-level memo, a cache).  Find a form that reproduces
            # in a fresh interpreter - the minimised or the original case; alone, executed twice, after the runs that
            # preceded it in its world (regenerated from their seeds) - then minimise prelude and case again, this
            # time in a pristine interpreter with every candidate in its own fork.
            forms = []
            for base in (v["case"], v.get("orig_case")):
                if base is None:
                    continue
                forms.append((base, {}))
                forms.append((base, {"prior_cases": [base]}))
                forms.append((base, {"prior_runs": {"wseed": v["wseed"], "tier": tier,
                                                    "js": list(range(max(0, v["j"] - 8), v["j"]))}}))
                if v["j"] > 8:
                    forms.append((base, {"prior_runs": {"wseed": v["wseed"], "tier": tier, "js": list(range(0, v["j"]))}}))
            for base, var in forms[1:]:
                rp2 = dict(rp, case=base, history_dependent=bool(var), **var)
                with open(path, "w") as f:
                    json.dump(rp2, f, indent=1)
                ok2, info2 = replay_file(path, repo, root, scratch)
                if info2.get("status") == "violation" and info2.get("check_id") == v["check_id"]:
                    rp2["digest"] = info2["digest"]
                    rp2["detail"] = info2.get("detail") or rp2["detail"]
                    with open(path, "w") as f:
                        json.dump(rp2, f, indent=1)
                    out2 = os.path.join(scratch, "freshmin_out.json")
                    run_worlds([{"args": ["--fresh-minimise", path], "hashseed": v["hashseed"], "out": out2,
                                 "kill": 400, "tag": 0}], repo, root, jobs=1)
                    with open(path) as f:
                        rp = json.load(f)
                    ok, info = replay_file(path, repo, root, scratch)
                    break
            else:
                with open(path, "w") as f:
                    json.dump(rp, f, indent=1)
        replay_verified[path] = ok
        rp["replay_verified"] = ok
        with open(path, "w") as f:
            json.dump(rp, f, indent=1)
        lines.append(f"VIOLATION property={prop_id} replay={path}")
        lines.append(f"  check={v['check_id']} seen={v.get('count', 1)}x replay_verified={ok} :: {(rp.get('detail') or v['detail'])[:400]}")
        rc = 1
    if harness:
        for h in harness[:8]:
            lines.append("HARNESS-ERROR: " + h.replace("\n", "\n    "))
        if len(harness) > 8:
            lines.append(f"HARNESS-ERROR: ... and {len(harness) - 8} more")
        if rc == 0:
            rc = 2
    if n_runs == 0 and rc == 0:
        lines.append("HARNESS-ERROR: no run was executed")
        rc = 2

    wall = time.time() - t0
    order_reach = {}
    for k, perm in orders:
        order_reach[str(k)] = order_reach.get(str(k), 0) + 1
    zero_probes = [p for p in getattr(prop, "PROBES", []) if not probes.get(p)]
    steps = stats.get("calls", stats.get("steps", n_runs))
    ev = {
        "property_id": prop_id, "tier": tier, "seed": seed, "level": "exploration",
        "coverage": {
            "evaluations": n_runs,
            "distinct_nontrivial": len(fps),
            "rule": getattr(prop, "RULE", "distinct fingerprints of non-trivial cases"),
            "samples": samples or [{"note": "no successful sample recorded"}],
            "worlds": len(hashseeds), "hash_seeds": hashseeds[:32],
            "runs_per_hour": int(n_runs / max(wall, 1e-6) * 3600),
            "seeds_per_hour": int(n_runs / max(wall, 1e-6) * 3600),
            "distinct_executions": {"measure": "distinct SHA-1 digests of the per-run event log (operations, outcomes, "
                                               "order-preserving state dumps, peer interactions)", "count": len(digest_set)},
            "simulated_time": {"unit": getattr(prop, "TIME_UNIT", "API calls / oracle steps"), "steps": steps},
            "skipped_out_of_bounds": n_skip,
            "stats": stats, "probes": probes, "probes_at_zero": zero_probes,
            "faults_fired": faults, "solver": solver,
            "order_reach": {k: f"{v} of {fact(int(k))} iteration orders of {k}-element fan-in sets observed"
                            for k, v in sorted(order_reach.items())},
            "components_real": COMPONENTS_REAL, "components_stub": COMPONENTS_STUB,
            "known_findings_hit": {k: h["n"] for k, h in known_hit.items()},
            "replay_verified": replay_verified,
            "harness_errors": len(harness),
            "exhaustive": False,
        },
        "assumptions": getattr(prop, "ASSUMPTIONS", []) + [
            "sampling, not enumeration: a clean batch is evidence, not proof",
            "solver / approxmc / file system are in-process stubs (see components_stub)"],
        "wall_s": round(wall, 2),
        "violations": len(unknown),
    }
    ev_dir = os.environ.get("CG_EVIDENCE_DIR", os.path.join(root, "evidence"))
    os.makedirs(ev_dir, exist_ok=True)
    with open(os.path.join(ev_dir, f"{prop_id}.json"), "w") as f:
        json.dump(ev, f, indent=1, default=str)
    for ln in lines:
        print(ln)
    if zero_probes:
        print(f"note: reach probes at zero: {zero_probes}")
    print(f"{prop_id} {tier}: runs={n_runs} distinct_nontrivial={len(fps)} worlds={len(hashseeds)} "
          f"violations={len(unknown)} known={len(known_hit)} harness_errors={len(harness)} wall={wall:.1f}s exit={rc}")
    return rc


def fact(n):
    r = 1
    for i in range(2, n + 1):
        r *= i
    return r


def replay_file(path, repo, root, scratch):
    with open(path) as f:
        rp = json.load(f)
    out = os.path.join(scratch, "replay_out.json")
    if os.path.exists(out):
        os.unlink(out)
    res = run_worlds([{"args": ["--replay", path], "hashseed": rp["world"]["pythonhashseed"], "out": out,
                       "kill": 300, "tag": 0}], repo, root, jobs=1)
    s, rep, rc, txt = res[0]
    if rep is None:
        return False, {"error": txt[-2000:], "rc": rc}
    r = rep["replay"]
    ok = r["status"] == "violation" and r["check_id"] == rp["check_id"] and r["digest"] == rp["digest"]
    return ok, r


def cmd_replay(a, root):
    a.path = os.path.abspath(a.path)       # worlds run with another working directory
    repo = os.environ.get("CG_REPO", "/repo")
    scratch = tempfile.mkdtemp(prefix="cgsim_replay_")
    try:
        with open(a.path) as f:
            rp = json.load(f)
        ok, r = replay_file(a.path, repo, root, scratch)
        if "error" in r:
            print("HARNESS-ERROR: " + r["error"])
            return 2
        print(f"replay status={r['status']} check={r.get('check_id')} digest_match={r.get('digest') == rp['digest']}")
        if r.get("detail"):
            print("  " + r["detail"][:1000])
        if r["status"] == "harness_error":
            print(r.get("trace"))
            return 2
        if r["status"] == "violation":
            print(f"VIOLATION property={rp['property']} replay={os.path.abspath(a.path)}")
            return 1
        return 0
    finally:
        shutil.rmtree(scratch, ignore_errors=True)


def cmd_selftest(a, root):
    """Determinism (same seed twice, alone vs batch, 1 vs many jobs), liveness of the hash-seed
    seam (another PYTHONHASHSEED changes some digest), and the solver stub vs brute force."""
    repo = os.environ.get("CG_REPO", "/repo")
    props = a.props.split(",") if a.props else CLAIMED
    scratch = tempfile.mkdtemp(prefix="cgsim_selftest_")
    bad = 0
    try:
        # solver stub self-test
        p = subprocess.run(["timeout", "300", PY, os.path.join(os.path.dirname(WORKER), "selftest_stub.py")],
                           env=world_env(0, repo, root), capture_output=True, text=True)
        print(p.stdout.strip())
        if p.returncode != 0:
            print("SELFTEST-FAIL solver stub:", p.stderr[-2000:])
            bad += 1
        for pid in props:
            try:
                importlib.import_module(f"cgsim.props.{pid.lower()}")
            except ImportError:
                print(f"selftest: {pid} not built yet, skipped")
                continue
            specs = []
            nw = a.worlds
            for rep in range(2):
                for i in range(nw):
                    w = H("selftest", pid, i)
                    specs.append({"args": ["--prop", pid, "--wseed", str(w), "--first", "0", "--count", str(a.runs),
                                           "--tier", "quick", "--seconds", "600", "--no-minimise"],
                                  "hashseed": w % 2 ** 32, "out": os.path.join(scratch, f"{pid}_{rep}_{i}.json"),
                                  "kill": 900, "tag": (rep, i)})
            # same world seed under a different hash seed: digests must differ somewhere (seam is live)
            for i in range(nw):
                w = H("selftest", pid, i)
                specs.append({"args": ["--prop", pid, "--wseed", str(w), "--first", "0", "--count", str(a.runs),
                                       "--tier", "quick", "--seconds", "600", "--no-minimise"],
                              "hashseed": (w + 12345) % 2 ** 32, "out": os.path.join(scratch, f"{pid}_h_{i}.json"),
                              "kill": 900, "tag": ("h", i)})
            # run j alone
            alone_j = max(0, a.runs - 2)
            for i in range(min(nw, 4)):
                w = H("selftest", pid, i)
                specs.append({"args": ["--prop", pid, "--wseed", str(w), "--only", str(alone_j), "--tier", "quick",
                                       "--seconds", "600", "--no-minimise"],
                              "hashseed": w % 2 ** 32, "out": os.path.join(scratch, f"{pid}_a_{i}.json"),
                              "kill": 900, "tag": ("a", i)})
            first = run_worlds([s for s in specs if s["tag"][0] == 0], repo, root, jobs=1 if nw <= 4 else 3)
            rest = run_worlds([s for s in specs if s["tag"][0] != 0], repo, root, jobs=a.jobs)
            reps = {s["tag"]: rep for s, rep, rc, out in first + rest}
            errs = [(s["tag"], out[-600:]) for s, rep, rc, out in first + rest if rep is None]
            if errs:
                print(f"SELFTEST-FAIL {pid}: world crashed: {errs[:2]}")
                bad += 1
                continue
            same = all(reps[(0, i)]["digests"] == reps[(1, i)]["digests"] for i in range(nw))
            differs = any(reps[(0, i)]["digests"] != reps[("h", i)]["digests"] for i in range(nw))
            alone = all(dict(map(tuple, reps[(0, i)]["digests"])).get(alone_j) ==
                        dict(map(tuple, reps[("a", i)]["digests"])).get(alone_j) for i in range(min(nw, 4)))
            nd = sum(len(reps[(0, i)]["digests"]) for i in range(nw))
            print(f"selftest {pid}: {nd} runs x2: same-seed-identical={same} alone==batch={alone} "
                  f"other-hashseed-differs={differs}")
            if not (same and alone):
                bad += 1
                print(f"SELFTEST-FAIL {pid}: nondeterministic")
            if not differs:
                print(f"selftest {pid}: note: hash seed did not change any digest in this sample")
    finally:
        shutil.rmtree(scratch, ignore_errors=True)
    return 0 if bad == 0 else 2


def cmd_setup(a, root):
    p = subprocess.run([PY, "-c", "import circuitgraph, networkx, lark; print('deps ok', networkx.__version__, lark.__version__)"],
                       capture_output=True, text=True, cwd="/tmp")
    print(p.stdout.strip() or p.stderr.strip())
    if p.returncode != 0:
        return 2
    a.props = "C07"
    a.worlds, a.runs, a.jobs = 2, 6, 8
    return cmd_selftest(a, root)


def main(argv, root):
    ap = argparse.ArgumentParser(prog="check")
    sub = ap.add_subparsers(dest="cmd", required=True)
    r = sub.add_parser("run")
    r.add_argument("prop")
    r.add_argument("--tier", default=None)
    r.add_argument("--seed", type=int, default=None)
    r.add_argument("--worlds", type=int)
    r.add_argument("--runs", type=int)
    r.add_argument("--seconds", type=float)
    r.add_argument("--jobs", type=int, default=16)
    p = sub.add_parser("replay")
    p.add_argument("path")
    s = sub.add_parser("selftest")
    s.add_argument("--props", default=None)
    s.add_argument("--worlds", type=int, default=6)
    s.add_argument("--runs", type=int, default=12)
    s.add_argument("--jobs", type=int, default=16)
    sub.add_parser("setup")
    a = ap.parse_args(argv)
    if a.cmd == "run":
        return cmd_run(a, root)
    if a.cmd == "replay":
        return cmd_replay(a, root)
    if a.cmd == "selftest":
        return cmd_selftest(a, root)
    if a.cmd == "setup":
        return cmd_setup(a, root)
    return 2
