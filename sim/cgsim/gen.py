"""Seeded workload generators for nets (see ref.py for the representation) and
structural shrinking of nets.  Every choice comes from the rng passed in."""
import copy

from cgsim import ref

MULTI = list(ref.MULTI)
ALL_GATES = ["and", "nand", "or", "nor", "xor", "xnor", "buf", "not"]

NAME_STYLES = ("plain", "underscore", "auxlike", "mixed")


def swarm_types(rng):
    """Random non-empty subset of the eight gate types (swarm style)."""
    r = rng.random()
    if r < 0.35:
        return list(ALL_GATES)
    if r < 0.5:
        return ["xor", "xnor"] + rng.sample(["and", "or", "buf", "not", "nand", "nor"], rng.randint(0, 2))
    k = rng.randint(1, 7)
    return rng.sample(ALL_GATES, k)


class Namer:
    def __init__(self, rng, style):
        self.rng = rng
        self.style = style
        self.used = set()
        self.n = 0

    def fresh(self, kind="g"):
        rng = self.rng
        while True:
            self.n += 1
            st = self.style
            if st == "mixed":
                st = rng.choice(("plain", "underscore", "plain"))
            if st == "plain" or st == "auxlike":
                base = rng.choice((kind, kind, "n", "w", "N", "sig"))
                name = f"{base}{rng.randrange(0, 40)}"
            else:  # underscore: names whose concatenations are ambiguous
                parts = [rng.choice(("a", "b", "c", "a_b", "b_c", "x", "n", "1", "0", "y"))
                         for _ in range(rng.randint(1, 3))]
                if parts[0][0] in "0123456789":
                    parts[0] = "a"
                name = "_".join(parts)
            if name not in self.used and not name.startswith("tie_"):
                self.used.add(name)
                return name


def gen_net(rng, n_inputs=(1, 5), n_gates=(1, 10), types=None, max_arity=4, constants=0.3,
            bbs=0, cyclic=False, name_style="plain", input_outputs=0.1, unconnected_pins=0.0,
            name="top", min_outputs=1, all_sinks_outputs=False, parity_bias=0.0, bb_types=None, shuffle_order=0.3, self_loops=0.15):
    """Generate a lint-clean net.  Returns the net dict."""
    types = list(types or ALL_GATES)
    nm = Namer(rng, name_style)
    nodes = {}
    bbd = {}
    signals = []  # nodes usable as drivers

    ni = rng.randint(*n_inputs)
    for _ in range(ni):
        n = nm.fresh("i")
        nodes[n] = ["input", [], False]
        signals.append(n)
    if rng.random() < constants:
        for t in rng.sample(["0", "1"], rng.randint(1, 2)):
            n = nm.fresh("k")
            nodes[n] = [t, [], False]
            signals.append(n)
    pins_to_drive = []
    if bbs:
        nb = rng.randint(1, bbs) if isinstance(bbs, int) else rng.randint(*bbs)
        tpool = bb_types or [("bbA", ["a", "b"], ["y"]), ("bbB", ["d"], ["q", "qn"]), ("bbC", ["p"], ["z"])]
        for k in range(nb):
            tname, ins, outs = rng.choice(tpool)
            inst = nm.fresh("u")
            while "." in inst:
                inst = nm.fresh("u")
            bbd[inst] = [tname, list(ins), list(outs)]
            for p in ins:
                nodes[f"{inst}.{p}"] = ["bb_input", [], False]
                pins_to_drive.append(f"{inst}.{p}")
            for p in outs:
                pn = f"{inst}.{p}"
                nodes[pn] = ["bb_output", [], False]
                if rng.random() >= unconnected_pins:
                    b = nm.fresh("w")
                    nodes[b] = ["buf", [pn], False]
                    signals.append(b)
    ng = rng.randint(*n_gates)
    gates = []
    for _ in range(ng):
        t = rng.choice(types)
        if parity_bias and rng.random() < parity_bias:
            t = rng.choice(("xor", "xnor"))
        if t in ("buf", "not"):
            ar = 1
        else:
            ar = rng.randint(1, max_arity) if rng.random() < 0.15 else rng.randint(2, max(2, max_arity))
            if t in ("xor", "xnor") and parity_bias and rng.random() < 0.7:
                ar = rng.randint(3, max(3, max_arity))
        ar = min(ar, len(signals))
        fi = rng.sample(signals, ar)
        n = nm.fresh("g")
        nodes[n] = [t, fi, False]
        signals.append(n)
        gates.append(n)
    if cyclic and gates:
        order = list(nodes)
        lo, hi = cyclic if isinstance(cyclic, (tuple, list)) else (1, 3)
        for _ in range(rng.randint(lo, hi)):
            g = rng.choice(gates)
            later = [x for x in gates if order.index(x) > order.index(g)]
            if self_loops and rng.random() < self_loops:
                src = g  # a gate feeding itself: the shortest cycle (keeper / ring of one inverter)
            elif not later:
                continue
            else:
                src = rng.choice(later)
            t, fi, o = nodes[g]
            if src in fi:
                continue
            if t in ("buf", "not"):
                nodes[g][1] = [src]
            else:
                nodes[g][1] = fi + [src]
    # drive blackbox input pins
    drivers = [s for s in signals]
    for p in pins_to_drive:
        if rng.random() >= unconnected_pins and drivers:
            nodes[p][1] = [rng.choice(drivers)]
    # outputs
    cands = [n for n in nodes if nodes[n][0] not in ("bb_input", "bb_output")]
    fo = {n: 0 for n in nodes}
    for n, (t, fi, o) in nodes.items():
        for f in fi:
            fo[f] += 1
    for n in cands:
        t = nodes[n][0]
        if t == "input":
            p = input_outputs
        elif t in ("0", "1"):
            p = input_outputs
        elif fo[n] == 0:
            p = 1.0 if all_sinks_outputs else 0.7
        else:
            p = 0.2
        if rng.random() < p:
            nodes[n][2] = True
    outs = [n for n in nodes if nodes[n][2]]
    while len(outs) < min_outputs:
        pool = [n for n in (gates or cands) if not nodes[n][2]] or [n for n in cands if not nodes[n][2]]
        if not pool:
            break
        n = rng.choice(pool)
        nodes[n][2] = True
        outs.append(n)
    if shuffle_order and rng.random() < shuffle_order:
        # node insertion order is part of a circuit's construction history: loads may have been created before
        # their drivers (netlists in file order, add(..., fanout=...), relabel)
        items = list(nodes.items())
        rng.shuffle(items)
        nodes = dict(items)
    net = {"name": name, "nodes": nodes, "bbs": bbd}
    if name_style == "auxlike":
        net = auxlike_rename(rng, net)
    return net


def rename(net, mapping):
    nodes = {}
    for n, (t, fi, o) in net["nodes"].items():
        nodes[mapping.get(n, n)] = [t, [mapping.get(f, f) for f in fi], o]
    return {"name": net["name"], "nodes": nodes, "bbs": copy.deepcopy(net["bbs"])}


def auxlike_rename(rng, net):
    """Rename a few nodes so that they collide with the names the CNF encoder / parsers invent:
    xor_<a>_<b>, xor_inv_<n>, not_<a>, and_<a>_<b> ..."""
    nodes = net["nodes"]
    plain = [n for n in nodes if "." not in n]
    cands = []
    for n, (t, fi, o) in nodes.items():
        if t in ("xor", "xnor") and len(fi) >= 3:
            for a in fi:
                for b in fi:
                    if a != b and "." not in a and "." not in b:
                        cands.append(f"xor_{a}_{b}")
        if t == "xnor" and len(fi) >= 2:
            cands.append(f"xor_inv_{n}")
    for _ in range(3):
        if len(plain) >= 2:
            a, b = rng.sample(plain, 2)
            cands.append(rng.choice((f"xor_{a}_{b}", f"and_{a}_{b}", f"not_{a}", f"or_{a}_{b}", f"xor_inv_{a}")))
    rng.shuffle(cands)
    mapping = {}
    taken = set(nodes)
    victims = [n for n in plain]
    rng.shuffle(victims)
    for new in cands[: rng.randint(1, 3)]:
        if new in taken or not victims:
            continue
        v = victims.pop()
        # do not rename a node that is part of the pattern itself
        if v in new.split("_"):
            continue
        mapping[v] = new
        taken.add(new)
    # names inside `new` refer to old names; keep those un-renamed
    for old in list(mapping):
        for other_new in mapping.values():
            if old in other_new.split("_"):
                mapping.pop(old, None)
                break
    return rename(net, mapping) if mapping else net


# ----------------------------------------------------------------------------
# shrinking
# ----------------------------------------------------------------------------
def _prune_dangling(net):
    """Drop fan-in references to missing nodes; gates that lose all fan-in become inputs."""
    nodes = net["nodes"]
    for n in list(nodes):
        t, fi, o = nodes[n]
        fi2 = [f for f in fi if f in nodes]
        if fi and not fi2 and t not in ("bb_input",):
            nodes[n] = ["input", [], o]
        else:
            nodes[n] = [t, fi2, o]
    return net


def remove_node(net, n):
    net = copy.deepcopy(net)
    if n not in net["nodes"]:
        return None
    t = net["nodes"][n][0]
    if t in ("bb_input", "bb_output"):
        return None
    del net["nodes"][n]
    return _prune_dangling(net)


def bypass_node(net, n):
    """Replace every use of gate n by its first fan-in."""
    t, fi, o = net["nodes"][n]
    if not fi or t in ("bb_input", "bb_output"):
        return None
    src = fi[0]
    if net["nodes"][src][0] in ("bb_output",):
        return None
    net = copy.deepcopy(net)
    del net["nodes"][n]
    for m, (t2, fi2, o2) in net["nodes"].items():
        if n in fi2:
            new = []
            for f in fi2:
                f = src if f == n else f
                if f not in new and f != m:
                    new.append(f)
            net["nodes"][m][1] = new
    if o and net["nodes"][src][0] not in ("bb_input",):
        net["nodes"][src][2] = True
    return _prune_dangling(net)


def remove_bb(net, inst):
    net = copy.deepcopy(net)
    tname, ins, outs = net["bbs"].pop(inst)
    for p in ins + outs:
        net["nodes"].pop(f"{inst}.{p}", None)
    return _prune_dangling(net)


def shrink_net(net):
    """Yield structurally smaller nets (not necessarily lint-clean; callers filter)."""
    nodes = net["nodes"]
    for inst in list(net["bbs"]):
        yield remove_bb(net, inst)
    names = list(nodes)
    # remove from the back first (sinks)
    for n in reversed(names):
        r = remove_node(net, n)
        if r is not None:
            yield r
    for n in reversed(names):
        r = bypass_node(net, n)
        if r is not None:
            yield r
    for n in names:
        t, fi, o = nodes[n]
        if len(fi) >= 2 and t not in ("bb_input",):
            for f in fi:
                c = copy.deepcopy(net)
                c["nodes"][n][1] = [x for x in fi if x != f]
                yield c
    for n in names:
        t, fi, o = nodes[n]
        if t in ref.GATES and fi:
            c = copy.deepcopy(net)
            c["nodes"][n] = ["input", [], o]
            yield c
    outs = [n for n in names if nodes[n][2]]
    if len(outs) > 1:
        for n in outs:
            c = copy.deepcopy(net)
            c["nodes"][n][2] = False
            yield c
    # simpler types
    for n in names:
        t, fi, o = nodes[n]
        simpler = {"nand": "and", "nor": "or", "xnor": "xor", "not": "buf"}.get(t)
        if simpler:
            c = copy.deepcopy(net)
            c["nodes"][n][0] = simpler
            yield c
    # canonical renaming (drops name-dependent features if they are irrelevant)
    mapping = {}
    i = 0
    for n in names:
        if "." in n:
            continue
        new = f"v{i}"
        i += 1
        mapping[n] = new
    if any(k != v for k, v in mapping.items()) and not (set(mapping.values()) & (set(names) - set(mapping))):
        yield rename(net, mapping)


def net_size(net):
    return (len(net["nodes"]) + sum(len(v[1]) for v in net["nodes"].values())
            + 3 * len(net["bbs"]) + sum(len(n) for n in net["nodes"]) / 100.0)


def net_fingerprint(net):
    """Structure fingerprint (type multiset + edges by position) for distinctness counting."""
    from cgsim.core import fp
    return fp(ref.canon(net))


def features(net):
    nodes = net["nodes"]
    f = set()
    for n, (t, fi, o) in nodes.items():
        if t in ("xor", "xnor") and len(fi) >= 3:
            f.add("parity3+")
        if t in ref.MULTI and len(fi) == 1:
            f.add("multi1")
        if t in ("0", "1"):
            f.add("const")
        if t == "input" and o:
            f.add("input_is_output")
        if t in ("0", "1") and o:
            f.add("const_is_output")
    if net["bbs"]:
        f.add("bb")
    return f
