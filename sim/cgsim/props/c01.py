"""C01 - Tseitin CNF / solve() is exact for circuit semantics.

Explores: hash world (parity-chain order, variable numbering, auxiliary names), solver model
choice (policy + PRNG).  Oracle: consistent valuations computed by the reference
(bit-parallel over all nodes, or truth tables for larger acyclic nets).
"""
from cgsim import gen as G, ref
from cgsim.core import fp, Skip, state_digest

ID = "C01"
QUICK = dict(worlds=16, runs=600, seconds=15)
THOROUGH = dict(worlds=256, runs=4000, seconds=30)
RULE = ("seeded lint-clean circuits x 6-14 partial-assignment queries; distinct = canonical net + queries "
        "fingerprint; non-trivial = at least one SAT and the circuit has >= 2 gates")
PROBES = ["parity3+", "auxlike_with_parity", "unsat_answer", "sat_internal_assumption", "cyclic_0_stable",
          "cyclic_2+_stable", "bb", "multi1", "query_after_inplace_edit"]
ASSUMPTIONS = ["no 'x' constants (the encoder rejects them)", "<= 10 startpoints (CNF model set compared exhaustively up to 8), <= 22 nodes acyclic, <= 14 nodes cyclic, gates up to 11 operands"]


def gen(rng, tier):
    cyclic = rng.random() < 0.3
    style = rng.choices(G.NAME_STYLES, weights=[3, 2, 3, 1])[0]
    parity = rng.random() < 0.55
    if cyclic:
        net = G.gen_net(rng, n_inputs=(1, 3), n_gates=(2, 8), types=G.swarm_types(rng), max_arity=rng.randint(2, 4),
                        constants=0.2, bbs=0, cyclic=True, name_style=style, parity_bias=0.3 if parity else 0.0)
    elif rng.random() < 0.06:
        # wide gates: a handful of gates with up to 11 operands (chain length, clause width, two-digit positions)
        net = G.gen_net(rng, n_inputs=(8, 10), n_gates=(1, 3), types=G.swarm_types(rng), max_arity=11, constants=0.1,
                        bbs=0, name_style=style, parity_bias=0.5)
    elif tier == "thorough" and rng.random() < 0.3:
        net = G.gen_net(rng, n_inputs=(4, 8), n_gates=(8, 13), types=G.swarm_types(rng), max_arity=rng.randint(2, 7),
                        constants=0.3, bbs=0, name_style=style, parity_bias=0.4 if parity else 0.0)
    else:
        net = G.gen_net(rng, n_inputs=(1, 5), n_gates=(1, 12), types=G.swarm_types(rng), max_arity=rng.randint(2, 6),
                        constants=0.3, bbs=rng.choice((0, 0, 1, 2)), name_style=style,
                        parity_bias=0.4 if parity else 0.0)
    names = list(net["nodes"])
    queries = []
    acyc = not ref.is_cyclic(net)
    free = ref.free_nodes(net)
    for _ in range(rng.randint(6, 14)):
        mode = rng.choice(("empty", "start", "internal", "mixed", "full", "consistent", "consistent", "flip", "nonnode"))
        if mode == "empty":
            q = {}
        elif mode == "nonnode":
            q = {rng.choice(names): rng.random() < 0.5, rng.choice(("nope", "xor_a_b", names[0] + "_", "sat")): True}
        elif mode in ("consistent", "flip") and acyc:
            vals = ref.evaluate(net, {f: rng.getrandbits(1) for f in free})
            ks = rng.sample(names, rng.randint(1, len(names)))
            q = {k: bool(vals[k]) for k in ks}
            if mode == "flip":
                k = rng.choice(ks)
                q[k] = not q[k]
        else:
            if mode == "start":
                pool = free or names
            elif mode == "internal":
                pool = [n for n in names if n not in free] or names
            else:
                pool = names
            k = len(pool) if mode == "full" else rng.randint(1, len(pool))
            q = {n: rng.random() < 0.5 for n in rng.sample(pool, k)}
        queries.append(q)
    edits = []
    if rng.random() < 0.3:
        # history: the same Circuit object is edited in place between queries (a gate's function changes, the wiring
        # stays); every query after an edit must answer for the circuit as it is now
        gl = [n for n, v in net["nodes"].items() if v[0] in ref.GATES]
        for _ in range(rng.randint(1, 2)):
            if not gl:
                break
            g = rng.choice(gl)
            t = net["nodes"][g][0]
            pool = ("buf", "not") if t in ("buf", "not") else ref.MULTI
            edits.append([g, rng.choice([x for x in pool if x != t])])
    return {"net": net, "queries": queries, "edits": edits,
            "peer": {"seed": rng.getrandbits(32), "policy": rng.choice(("inputs_first", "random", "inputs_last",
                                                                        "prefer_true", "prefer_false"))}}


def run(case, ctx):
    import copy
    cg = ctx.cg
    net = case["net"]
    if not ref.is_lint_clean(net):
        raise Skip("not lint clean")
    c = ref.build(cg, net)
    _round(case, ctx, net, c, 0)
    for k, (g, t) in enumerate(case.get("edits") or []):
        if g not in net["nodes"] or net["nodes"][g][0] not in ref.GATES:
            continue
        net = copy.deepcopy(net)
        net["nodes"][g][0] = t
        if not ref.is_lint_clean(net):
            break
        c.set_type(g, t)          # in-place edit (public mutator) of the object the library has already seen
        ctx.probe("query_after_inplace_edit")
        ctx.log("edit", g, t)
        _round(case, ctx, net, c, k + 1)


def _round(case, ctx, net, c, rnd):
    cg = ctx.cg
    nodes = net["nodes"]
    names = sorted(nodes)
    cyc = ref.is_cyclic(net)
    free = ref.free_nodes(net)
    if len(names) > (14 if cyc else 22) or len(free) > 10:
        raise Skip("too large")
    for f in G.features(net):
        ctx.probe(f)
    if any("xor_" in n or n.startswith("not_") or n.startswith("and_") for n in names) and "parity3+" in G.features(net):
        ctx.probe("auxlike_with_parity")
    for n, (t, fi, o) in nodes.items():
        if len(fi) >= 3:
            ctx.observe_order(c.fanin(n))
    small = len(names) <= 14
    if small:
        mask, order, full = ref.consistency_mask(net)
        idx = {n: i for i, n in enumerate(order)}
        k = len(order)
    else:
        tts, forder, full = ref.truth_tables(net, free)
    sig0 = {"types": sorted({v[0] for v in nodes.values()}), "cyclic": cyc, "after_edit": rnd > 0}

    def sat_possible(A):
        if small:
            return ref.constrain(mask, k, idx, A) != 0
        m = full
        for n, v in A.items():
            m &= tts[n] if v else (tts[n] ^ full)
        return m != 0

    def is_consistent(val):
        if small:
            i = sum((1 << idx[n]) for n in order if val[n])
            return (mask >> i) & 1 == 1
        i = sum((1 << j) for j, n in enumerate(forder) if val[n])
        return all(((tts[n] >> i) & 1) == int(bool(val[n])) for n in names)

    # (b) CNF models restricted to circuit nodes == consistent valuations
    ctx.warm(cg.sat.cnf, c)
    try:
        formula, variables = cg.sat.cnf(c)
        clauses = [list(x) for x in formula.clauses]
        ids = {n: variables.id(n) for n in names}
    except Exception as e:
        ctx.violate("C01.cnf_raises", f"cnf() raised {type(e).__name__}: {e}", dict(sig0, exc=type(e).__name__))
    nv = max([abs(l) for cl in clauses for l in cl] + list(ids.values()) + [0])
    ctx.log("cnf", len(clauses), nv, fp([clauses, sorted(ids.items())]))
    ctx.stats["cnf_vars"] += nv
    if len(set(ids.values())) != len(ids):
        ctx.violate("C01.var_alias", f"two circuit nodes share a CNF variable: {ids}", sig0)
    if nv <= 70 and len(free) <= 8:
        proj = [ids[n] for n in names]
        models = ref.enumerate_projected(nv, clauses, proj)
        got = set()
        for m in models:
            got.add(tuple(bool(x) for x in m))
        if small:
            want = set()
            mm = mask
            i = 0
            # enumerate set bits of mask
            while mm:
                low = mm & -mm
                i = low.bit_length() - 1
                want.add(tuple(bool((i >> idx[n]) & 1) for n in names))
                mm ^= low
            if cyc:
                per_input = {}
                for w in want:
                    key = tuple(w[names.index(f)] for f in free)
                    per_input[key] = per_input.get(key, 0) + 1
                if len(per_input) < (1 << len(free)):
                    ctx.probe("cyclic_0_stable")
                if any(v >= 2 for v in per_input.values()):
                    ctx.probe("cyclic_2+_stable")
        else:
            want = None
        if want is not None:
            if got != want:
                extra = sorted(got - want)[:2]
                missing = sorted(want - got)[:2]
                ctx.violate("C01.cnf_models",
                            f"CNF models restricted to nodes differ from consistent valuations: "
                            f"{len(got)} vs {len(want)}; nodes={names} spurious={extra} missing={missing}",
                            dict(sig0, auxlike=any(n.startswith('xor_') for n in names)))
        else:
            if len(got) != (1 << len(free)):
                ctx.violate("C01.cnf_models", f"acyclic circuit with {len(free)} startpoints has {len(got)} CNF models "
                            f"restricted to nodes", dict(sig0, auxlike=any(n.startswith('xor_') for n in names)))
            for m in list(got)[:64]:
                if not is_consistent(dict(zip(names, m))):
                    ctx.violate("C01.cnf_models", f"CNF model {dict(zip(names, m))} is not a consistent valuation",
                                dict(sig0, auxlike=any(n.startswith('xor_') for n in names)))
        ctx.stats["cnf_model_sets_checked"] += 1

    # (a) solve() under partial assignments
    n_sat = 0
    for qi, A in enumerate(case["queries"]):
        bad = [n for n in A if n not in nodes]
        a_obj = dict(A)
        ctx.warm(cg.sat.solve, c, a_obj)
        try:
            res = cg.sat.solve(c, a_obj)
            exc = None
        except Exception as e:
            res, exc = None, e
        ctx.log("solve", qi, sorted(A.items()), type(exc).__name__ if exc else (fp(sorted(res.items())) if res else res))
        ctx.stats["queries"] += 1
        if bad:
            if not isinstance(exc, ValueError):
                ctx.violate("C01.nonnode", f"assumption on non-node {bad} -> {type(exc).__name__ if exc else res!r}",
                            dict(sig0, kind="nonnode"))
            ctx.probe("nonnode_rejected")
            continue
        if exc is not None:
            ctx.violate("C01.solve_raises", f"solve({A}) raised {type(exc).__name__}: {exc}", dict(sig0, exc=type(exc).__name__))
        possible = sat_possible(A)
        if res is False:
            ctx.probe("unsat_answer")
            if possible:
                ctx.violate("C01.false_unsat", f"solve({A}) returned False but a consistent valuation agrees with it",
                            dict(sig0, kind="false_unsat"))
            continue
        if not isinstance(res, dict):
            ctx.violate("C01.result_type", f"solve returned {res!r}", sig0)
        n_sat += 1
        if not possible:
            ctx.violate("C01.false_sat", f"solve({A}) returned a valuation but none is consistent with A", dict(sig0, kind="false_sat"))
        if set(res) != set(names):
            ctx.violate("C01.keys", f"result keys {sorted(res)} != nodes {names}", sig0)
        for n, v in A.items():
            if bool(res[n]) != bool(v):
                ctx.violate("C01.disagrees", f"result[{n}]={res[n]} contradicts assumption {v}", sig0)
        if not is_consistent(res):
            ctx.violate("C01.inconsistent", f"solve({A}) returned an inconsistent valuation {res}", dict(sig0, kind="inconsistent"))
        if any(n not in free for n in A):
            ctx.probe("sat_internal_assumption")
    ctx.stats["sat_answers"] += n_sat
    ctx.stats["steps"] += len(case["queries"]) + 1
    ctx.log("state", state_digest(c))


def sig_key(sig):
    return (sig.get("kind"), sig.get("exc"), sig.get("after_edit"))


def shrink(case):
    qs = case["queries"]
    if len(qs) > 1:
        for i in range(len(qs)):
            yield dict(case, queries=[qs[i]])
        for i in range(len(qs)):
            yield dict(case, queries=qs[:i] + qs[i + 1:])
    for net in G.shrink_net(case["net"]):
        if net is None or not ref.is_lint_clean(net):
            continue
        nn = set(net["nodes"])
        q2 = [{k: v for k, v in q.items() if k in nn or k not in case["net"]["nodes"]} for q in qs]
        yield dict(case, net=net, queries=q2)
    for i, q in enumerate(qs):
        for k in list(q):
            q2 = dict(q)
            del q2[k]
            yield dict(case, queries=qs[:i] + [q2] + qs[i + 1:])
    ed = case.get("edits") or []
    if ed:
        yield dict(case, edits=[])
        for i in range(len(ed)):
            yield dict(case, edits=ed[:i] + ed[i + 1:])
    if case["peer"].get("policy") != "inputs_first":
        yield dict(case, peer=dict(case["peer"], policy="inputs_first"))


def fingerprint(case, r):
    if r["stats"].get("sat_answers", 0) >= 1 and len(case["net"]["nodes"]) >= 3:
        return fp([ref.canon(case["net"]), case["queries"]])
    return None


def sample(case, r):
    return {"net": case["net"], "queries": case["queries"][:4], "policy": case["peer"].get("policy"),
            "sat_answers": r["stats"].get("sat_answers")}
