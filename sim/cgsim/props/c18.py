"""C18 - acyclic_unroll removes cycles and preserves stable states.  Explores the hash world:
node order and max() tie-breaks feed the feedback-set heuristic, so the cut differs per world."""
from cgsim import gen as G, ref
from cgsim.core import fp, Skip, state_digest

ID = "C18"
QUICK = dict(worlds=16, runs=800, seconds=15)
THOROUGH = dict(worlds=256, runs=3000, seconds=30)
RULE = ("seeded cyclic blackbox-free circuits (1-3 feedback edges, no self-loops, <= 3 inputs, <= 16 nodes, up to 7 feedback edges); distinct = "
        "canonical net; non-trivial = the circuit has at least one stable state and one output inside or behind a cycle")
PROBES = ["feedback_nodes>=2", "input_with_0_stable", "input_with_2+_stable", "two_sccs", "input_is_output"]
ASSUMPTIONS = ["<= 3 inputs, <= 16 nodes (all 2^n node valuations are enumerated bit-parallel)",
               "circuits without self-loops (the statement excludes them); node names aux_in_<f> and startpoint/output names c<i>_<n> are avoided: acyclic_unroll refuses them with ValueError"]


def gen(rng, tier):
    net = None
    for _ in range(6):
        big = rng.random() < 0.4
        net = G.gen_net(rng, n_inputs=(1, 2) if big else (1, 3), n_gates=(8, 13) if big else (2, 8),
                        types=G.swarm_types(rng), max_arity=rng.randint(2, 4) if big else rng.randint(2, 3),
                        constants=0.15, cyclic=(3, 7) if big else True,
                        name_style=rng.choice(("plain", "plain", "underscore")),
                        input_outputs=rng.choice((0.0, 0.2)), min_outputs=1,
                        self_loops=0.0)      # the statement is about circuits without self-loops
        if ref.is_cyclic(net):
            break
    return {"net": net, "peer": {"seed": rng.getrandbits(32)}}


def sccs(net):
    """Strongly connected components with more than one node (Tarjan, iterative enough for tiny nets)."""
    nodes = net["nodes"]
    fo = ref.fanout_map(net)
    index = {}
    low = {}
    stack = []
    on = set()
    out = []
    counter = [0]

    def visit(v):
        index[v] = low[v] = counter[0]
        counter[0] += 1
        stack.append(v)
        on.add(v)
        for w in fo[v]:
            if w not in index:
                visit(w)
                low[v] = min(low[v], low[w])
            elif w in on:
                low[v] = min(low[v], index[w])
        if low[v] == index[v]:
            comp = []
            while True:
                w = stack.pop()
                on.discard(w)
                comp.append(w)
                if w == v:
                    break
            if len(comp) > 1:
                out.append(comp)
    for v in nodes:
        if v not in index:
            visit(v)
    return out


def _search_auxmap(net, rs, ins, aux):
    from itertools import permutations
    if len(aux) > 3 or len(ref.inputs(rs)) > 14:
        return None
    free = sorted(ref.inputs(rs))
    try:
        tr, _, _ = ref.truth_tables(rs, free)
    except ref.RefError:
        return None
    mask, order, full = ref.consistency_mask(net)
    idx = {n: i for i, n in enumerate(order)}
    states = []
    mm = mask
    while mm:
        low = mm & -mm
        states.append(low.bit_length() - 1)
        mm ^= low
    cand_nodes = [n for n in order if net["nodes"][n][0] != "input"]
    for combo in permutations(cand_nodes, len(aux)):
        amap = dict(zip(aux, combo))
        ok = True
        for i in states:
            j = 0
            for p, a in enumerate(free):
                v = (i >> idx[a]) & 1 if a in ins else (i >> idx[amap[a]]) & 1
                j |= v << p
            if any(((tr[o] >> j) & 1) != ((i >> idx[o]) & 1) for o in ref.outputs(net)):
                ok = False
                break
        if ok:
            return amap
    return None


def run(case, ctx):
    cg = ctx.cg
    net = case["net"]
    nodes = net["nodes"]
    if not ref.is_lint_clean(net) or net["bbs"] or not ref.is_cyclic(net):
        raise Skip("precondition (needs a cyclic lint-clean circuit)")
    if any(n in fi for n, (t, fi, o) in nodes.items()):
        raise Skip("self-loop")
    if len(nodes) > 16 or len(ref.inputs(net)) > 4:
        raise Skip("bounds")
    comps = sccs(net)
    if len(comps) >= 2:
        ctx.probe("two_sccs")
    if any(v[0] == "input" and v[2] for v in nodes.values()):
        ctx.probe("input_is_output")
    c = ref.build(cg, net)
    before = ref.snapshot(c)
    sig = {}
    r = ctx.call("C18.raises", sig, cg.tx.acyclic_unroll, c)
    rs = ref.snapshot(r)
    ctx.log("unrolled", state_digest(r))
    ctx.stats["steps"] += 1
    if ref.snapshot(c) != before:
        ctx.violate("C18.mutated_arg", "acyclic_unroll changed its argument", sig)
    if ref.is_cyclic(rs):
        ctx.violate("C18.still_cyclic", "result is cyclic", sig)
    bad = ref.wiring_violations(rs, undriven=True)
    if bad:
        ctx.violate("C18.illegal", f"result is not lint-clean: {bad[:3]}", sig)
    if ref.outputs(rs) != ref.outputs(net):
        ctx.violate("C18.outputs", f"outputs {ref.outputs(rs)} != {ref.outputs(net)}", sig)
    ins = ref.inputs(net)
    rin = ref.inputs(rs)
    if not set(ins) <= set(rin):
        ctx.violate("C18.inputs", f"original inputs {sorted(set(ins) - set(rin))} are missing", sig)
    aux = [a for a in rin if a not in ins]
    auxmap = {}
    by_name = True
    for a in aux:
        cands = [f for f in nodes if a.endswith("aux_in_" + f)]
        if not cands or max(cands, key=len) in auxmap.values():
            by_name = False
            break
        auxmap[a] = max(cands, key=len)
    if not by_name:
        # the property does not prescribe how auxiliary inputs are named: fall back to searching for an injective
        # assignment of auxiliary inputs to original nodes under which every stable state is reproduced
        ctx.probe("aux_mapping_searched")
        auxmap = _search_auxmap(net, rs, ins, aux)
        if auxmap is None:
            if len(aux) > 3:
                raise Skip("auxiliary inputs not recognisable by name and too many to search")
            ctx.violate("C18.no_consistent_cut", f"no assignment of the auxiliary inputs {aux} to distinct original nodes "
                        f"reproduces every stable state at the outputs", sig)
    if len(aux) >= 2:
        ctx.probe("feedback_nodes>=2")
    # every cycle must contain a cut node
    cut = set(auxmap.values())
    rest = {"name": "r", "nodes": {n: [t, [f for f in fi if f not in cut], o] for n, (t, fi, o) in nodes.items()}, "bbs": {}}
    if by_name and ref.is_cyclic(rest):
        ctx.violate("C18.cut_incomplete", f"the auxiliary inputs {sorted(cut)} do not cut every cycle", sig)
    if sorted(ref.free_nodes(rs)) != sorted(rin):
        ctx.violate("C18.free", f"free signals {sorted(ref.free_nodes(rs))} != inputs {sorted(rin)}", sig)
    free = sorted(rin)
    if len(free) > 14:
        raise Skip("too many auxiliary inputs for the oracle")
    tr, _, _ = ref.truth_tables(rs, free)
    mask, order, full = ref.consistency_mask(net)
    idx = {n: i for i, n in enumerate(order)}
    per_input = {}
    mm = mask
    n_states = 0
    while mm:
        low = mm & -mm
        i = low.bit_length() - 1
        mm ^= low
        n_states += 1
        val = {n: (i >> idx[n]) & 1 for n in order}
        key = tuple(val[x] for x in ins)
        per_input[key] = per_input.get(key, 0) + 1
        j = 0
        for p, a in enumerate(free):
            v = val[a] if a in ins else val[auxmap[a]]
            j |= v << p
        for o in ref.outputs(net):
            got = (tr[o] >> j) & 1
            if got != val[o]:
                ctx.violate("C18.stable_output", f"stable state {val}: with aux inputs set to the stable values of "
                            f"{sorted(cut)}, output {o} is {got} instead of {val[o]}", sig)
    ctx.stats["stable_states"] += n_states
    if len(per_input) < (1 << len(ins)):
        ctx.probe("input_with_0_stable")
    if any(v >= 2 for v in per_input.values()):
        ctx.probe("input_with_2+_stable")
    in_cycle = set().union(*[set(cmp) for cmp in comps]) if comps else set()
    behind = set()
    for o in ref.outputs(net):
        if o in in_cycle or (ref.transitive_fanin(net, [o]) & in_cycle):
            behind.add(o)
    if n_states and behind:
        ctx.stats["nontrivial"] += 1


def sig_key(sig):
    return (sig.get("exc"),)


def shrink(case):
    for net in G.shrink_net(case["net"]):
        if net is not None and ref.is_lint_clean(net) and ref.is_cyclic(net) and \
                not any(n in v[1] for n, v in net["nodes"].items()):
            yield dict(case, net=net)


def fingerprint(case, r):
    if r["stats"].get("nontrivial"):
        return fp(ref.canon(case["net"]))
    return None


def sample(case, r):
    return {"net": case["net"], "stable_states": r["stats"].get("stable_states")}
