"""C17 - supergate decomposition covers the circuit with independent-input blocks.

Explores the hash world and the iteration order of the SET OF CIRCUIT OBJECTS inside supergates():
the identity hash of every Circuit is drawn from the run PRNG (seam S2), so the order in which the
minimal cover is computed and the dict of supergates is filled differs per run and is replayable."""
from cgsim import gen as G, ref
from cgsim.core import fp, Skip, state_digest

ID = "C17"
QUICK = dict(worlds=16, runs=800, seconds=15)
THOROUGH = dict(worlds=256, runs=3000, seconds=30)
RULE = ("seeded blackbox-free lint-clean circuits (trees, reconvergent cones, shared logic between outputs, 20% with "
        "gates of more than two inputs); distinct = canonical net + flag; non-trivial = at least two supergates or one "
        "supergate containing a reconvergence")
PROBES = ["reconvergence_inside_supergate", "shared_logic_between_outputs", "chain_of_single_dominators",
          "supercircuit", "wide_gates", "supergates>=3", "supergates>=11", "input_is_output", "const"]
ASSUMPTIONS = ["<= 6 inputs and <= 20 gates for random shapes; ladders of 9-13 nested two-input gates with up to 14 inputs", "for circuits with gates of more than two inputs the internal wiring is "
               "judged functionally (the union of the supergates must be equivalent to the argument and have fan-in <= 2), "
               "because the fan-in-limited circuit is an internal artifact",
               "the blackboxes of the super-circuit are replaced by the check's own inlining; Circuit.fill_blackbox can refuse the names sg_<head>_<node> (ValueError) when a rebuilt circuit is decomposed again"]


def gen_ladder(rng):
    """A deep chain of supergates: g1 = op(x0, x1), g_k = op(g_{k-1}, x_k) (nesting depth, not width)."""
    n = rng.randint(9, 13)
    nodes = {}
    for i in range(n + 1):
        nodes[f"x{i}"] = ["input", [], False]
    prev = "x0"
    for k in range(1, n + 1):
        t = rng.choice(("and", "or", "nand", "nor", "xor", "xnor"))
        nodes[f"g{k}"] = [t, [prev, f"x{k}"], rng.random() < 0.1]
        prev = f"g{k}"
    nodes[prev][2] = True
    if rng.random() < 0.5:
        items = list(nodes.items())
        rng.shuffle(items)
        nodes = dict(items)
    return {"name": "ladder", "nodes": nodes, "bbs": {}}


def gen(rng, tier):
    if rng.random() < 0.06:
        net = gen_ladder(rng)
        sc = len(ref.outputs(net)) == 1 and rng.random() < 0.4
        return {"net": net, "supercircuit": sc, "peer": {"seed": rng.getrandbits(32)}}
    wide = rng.random() < 0.2
    shape = rng.choice(("tree", "reconv", "reconv", "multi"))
    big = tier == "thorough" and rng.random() < 0.3
    net = G.gen_net(rng, n_inputs=(2, 6) if shape != "reconv" else (1, 3), n_gates=(10, 20) if big else (2, 12),
                    types=[t for t in G.swarm_types(rng)] or ["and"], max_arity=rng.randint(3, 5) if wide else 2,
                    constants=rng.choice((0.0, 0.0, 0.3)), name_style="plain", input_outputs=rng.choice((0.0, 0.0, 0.1)),
                    min_outputs=1 if shape != "multi" else rng.randint(2, 3), all_sinks_outputs=True)
    if shape == "tree":
        # make it a tree: every gate input used once where possible (drop extra fan-outs by duplicating inputs is not
        # possible on names, so simply leave as generated; trees arise naturally for few gates)
        pass
    sc = rng.random() < 0.4
    if sc:
        outs = ref.outputs(net)
        keep = rng.choice(outs)
        for o in outs:
            net["nodes"][o][2] = (o == keep)
    return {"net": net, "supercircuit": sc, "peer": {"seed": rng.getrandbits(32)}}


def closed_cone(net, n):
    return ref.transitive_fanin(net, [n]) | {n}


def run(case, ctx):
    cg = ctx.cg
    net = case["net"]
    nodes = net["nodes"]
    if not ref.is_lint_clean(net) or ref.is_cyclic(net) or net["bbs"]:
        raise Skip("precondition")
    if any(n.startswith("sg_") or "_limit_fanin_" in n for n in nodes):
        raise Skip("reserved names")
    outs = ref.outputs(net)
    if case["supercircuit"] and len(outs) != 1:
        raise Skip("supercircuit needs one output")
    ins = ref.inputs(net)
    if len(ins) > 15:
        raise Skip("bounds")
    feats = G.features(net)
    if "input_is_output" in feats:
        ctx.probe("input_is_output")
    if "const" in feats:
        ctx.probe("const")
    wide = ref.max_fanin(net) > 2
    if wide:
        ctx.probe("wide_gates")
    c = ref.build(cg, net)
    before = ref.snapshot(c)
    shared = False
    if len(outs) >= 2:
        cs = [closed_cone(net, o) - set(ins) for o in outs]
        shared = any(cs[a] & cs[b] for a in range(len(cs)) for b in range(a + 1, len(cs)))
        if shared:
            ctx.probe("shared_logic_between_outputs")
    sig = {"supercircuit": case["supercircuit"], "wide": wide, "input_is_output": "input_is_output" in feats,
           "shared_logic": shared}
    res = ctx.call("C17.raises", sig, cg.tx.supergates, c, construct_supercircuit=case["supercircuit"])
    if ref.snapshot(c) != before:
        ctx.violate("C17.mutated_arg", "supergates changed its argument", sig)
    tt_orig, _, full = ref.truth_tables(net, ins)
    ctx.stats["steps"] += 1
    if case["supercircuit"]:
        ctx.probe("supercircuit")
        superc, sgmap = res
        sgs = list(sgmap.values())
        names = list(sgmap.keys())
    else:
        sgs = list(res)
        names = [None] * len(sgs)
    snaps = [ref.snapshot(s) for s in sgs]
    ctx.log("supergates", [sorted(s["nodes"]) for s in snaps], [state_digest(s) for s in sgs])
    if len(sgs) >= 3:
        ctx.probe("supergates>=3")
    if len(sgs) >= 11:
        ctx.probe("supergates>=11")
    # (a) one output each
    souts = []
    for s in snaps:
        o = ref.outputs(s)
        if len(o) != 1:
            ctx.violate("C17.one_output", f"a supergate has outputs {o}", sig)
        souts.append(o[0])
    internals = []
    for s in snaps:
        internals.append({n for n, v in s["nodes"].items() if v[0] != "input" or (n in nodes and nodes[n][0] == "input" and False)})
    # the union circuit U: internal nodes with their wiring
    U = {}
    for s, internal in zip(snaps, internals):
        for n in internal:
            t, fi, o = s["nodes"][n]
            if n in U and (U[n][0] != t or sorted(U[n][1]) != sorted(fi)):
                ctx.violate("C17.inconsistent_wiring", f"node {n} is wired differently in two supergates: {U[n]} vs {[t, fi]}", sig)
            U[n] = [t, list(fi), False]
            if len(fi) > 2:
                ctx.violate("C17.fanin_limited", f"node {n} has {len(fi)} fan-in inside a supergate", sig)
    # (c) cover: every gate / constant in the cone of the outputs
    cone = set()
    for o in outs:
        cone |= closed_cone(net, o)
    need = {n for n in cone if nodes[n][0] != "input"}
    missing = sorted(need - set(U))
    if missing:
        ctx.violate("C17.cover", f"gates {missing} in the cone of the outputs are in no supergate", sig)
    # (d) internal wiring
    if not wide:
        for n, (t, fi, o) in U.items():
            if n not in nodes or nodes[n][0] != t or sorted(nodes[n][1]) != sorted(fi):
                ctx.violate("C17.wiring", f"node {n}: {t} of {sorted(fi)} inside a supergate but {nodes.get(n)} in the circuit", sig)
    Unet = {"name": "U", "nodes": dict(U), "bbs": {}}
    for n, (t, fi, o) in list(U.items()):
        for f in fi:
            if f not in Unet["nodes"]:
                if f in nodes and nodes[f][0] == "input":
                    Unet["nodes"][f] = ["input", [], False]
                else:
                    ctx.violate("C17.dangling", f"supergate node {n} uses {f}, which no supergate defines and which is not "
                                f"a primary input", sig)
    for i in ins:
        Unet["nodes"].setdefault(i, ["input", [], False])
    if ref.is_cyclic(Unet):
        ctx.violate("C17.cyclic_union", "the union of the supergates is cyclic", sig)
    tu, _, _ = ref.truth_tables(Unet, ins)
    for n in sorted(need):
        if tu[n] != tt_orig[n]:
            ctx.violate("C17.function", f"node {n} computes a different function in the supergates than in the circuit, e.g. "
                        f"under {ref.witness(tu[n], tt_orig[n], ins)}", sig)
    # (e) inputs of one supergate have pairwise disjoint cones in the (fan-in limited) circuit
    Lnet = Unet
    for s, so in zip(snaps, souts):
        sin = ref.inputs(s)
        cones = {}
        for i in sin:
            if i not in Lnet["nodes"]:
                ctx.violate("C17.dangling", f"supergate input {i} is not a node of the circuit", sig)
            cones[i] = closed_cone(Lnet, i)
        for a in range(len(sin)):
            for b in range(a + 1, len(sin)):
                common = cones[sin[a]] & cones[sin[b]]
                if common:
                    ctx.violate("C17.independent_inputs", f"supergate {so}: inputs {sin[a]} and {sin[b]} share the fan-in "
                                f"{sorted(common)[:4]}", sig)
        # reconvergence inside this supergate?
        sfo = ref.fanout_map(s)
        if any(len(v) > 1 for k, v in sfo.items()):
            ctx.probe("reconvergence_inside_supergate")
    # (b) topological order
    if not case["supercircuit"]:
        for i in range(len(snaps)):
            for j in range(i + 1, len(snaps)):
                used = set(ref.inputs(snaps[i])) & internals[j]
                if used:
                    ctx.violate("C17.topological", f"supergate #{i} ({souts[i]}) uses {sorted(used)} which are internal to "
                                f"the later supergate #{j} ({souts[j]})", sig)
    if any(len(inter) >= 3 and not any(len(v) > 1 for v in ref.fanout_map(s).values()) for s, inter in zip(snaps, internals)):
        ctx.probe("chain_of_single_dominators")
    # (f) super-circuit
    if case["supercircuit"]:
        ss = ref.snapshot(superc)
        bad = ref.wiring_violations(ss)
        if bad or ref.is_cyclic(ss):
            ctx.violate("C17.super_illegal", f"super-circuit ill-formed: {bad[:3]}", sig)
        if ref.inputs(ss) != ins or ref.outputs(ss) != outs:
            ctx.violate("C17.super_io", f"super-circuit io {ref.inputs(ss)}/{ref.outputs(ss)} != {ins}/{outs}", sig)
        if set(ss["bbs"]) != set(names):
            ctx.violate("C17.super_registry", f"instances {sorted(ss['bbs'])} != map keys {sorted(names)}", sig)
        # reference-side substitution of every blackbox by its supergate
        F = {"name": "F", "nodes": {}, "bbs": {}}
        for n, (t, fi, o) in ss["nodes"].items():
            if t in ("bb_input", "bb_output"):
                continue
            F["nodes"][n] = [t, [], o]
        for name, s, so, inter in zip(names, snaps, souts, internals):
            for p in ref.inputs(s):
                pin = ss["nodes"].get(f"{name}.{p}")
                if pin is None or pin[1] != [p]:
                    ctx.violate("C17.super_pin", f"pin {name}.{p} is attached to {pin} instead of net {p}", sig)
            opin = f"{name}.{so}"
            loads = [n for n, v in ss["nodes"].items() if opin in v[1]]
            if loads != [so]:
                ctx.violate("C17.super_pin", f"output pin {opin} drives {loads} instead of [{so}]", sig)
            for n in inter:
                t, fi, o = s["nodes"][n]
                F["nodes"][f"{name}/{n}"] = [t, [f"{name}/{f}" if f in inter else f for f in fi], False]
            F["nodes"][so] = ["buf", [f"{name}/{so}"], ss["nodes"][so][2]]
        for n, (t, fi, o) in F["nodes"].items():
            if t == "buf" and not fi and n in ss["nodes"] and ss["nodes"][n][1]:
                drv = ss["nodes"][n][1]
                if not all(d.split(".")[0] in names for d in drv):
                    F["nodes"][n][1] = list(drv)
        if ref.is_cyclic(F) or sorted(ref.free_nodes(F)) != ins:
            ctx.violate("C17.super_structure", f"after substituting the supergates the circuit is cyclic or has free signals "
                        f"{sorted(ref.free_nodes(F))}", sig)
        tf, _, _ = ref.truth_tables(F, ins)
        for o in outs:
            if tf[o] != tt_orig[o]:
                ctx.violate("C17.super_function", f"super-circuit with supergates substituted differs at output {o}, e.g. under "
                            f"{ref.witness(tf[o], tt_orig[o], ins)}", sig)
    if len(sgs) >= 2 or any(any(len(v) > 1 for v in ref.fanout_map(s).values()) for s in snaps):
        ctx.stats["nontrivial"] += 1


def sig_key(sig):
    return (sig.get("exc"), sig.get("supercircuit"), sig.get("input_is_output"), sig.get("shared_logic"))


def shrink(case):
    for net in G.shrink_net(case["net"]):
        if net is not None and ref.is_lint_clean(net) and not ref.is_cyclic(net) and ref.outputs(net):
            if case["supercircuit"] and len(ref.outputs(net)) != 1:
                continue
            yield dict(case, net=net)
    if case["supercircuit"]:
        yield dict(case, supercircuit=False)


def fingerprint(case, r):
    if r["stats"].get("nontrivial"):
        return fp([ref.canon(case["net"]), case["supercircuit"]])
    return None


def sample(case, r):
    return {"net": case["net"], "supercircuit": case["supercircuit"]}
