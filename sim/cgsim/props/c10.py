"""C10 - the ternary encoding computes Kleene three-valued simulation.  Explores the hash world
(helper creation order, uid suffixes); the oracle is a gate-by-gate three-valued evaluator."""
from itertools import product

from cgsim import gen as G, ref
from cgsim.core import fp, Skip, state_digest

ID = "C10"
QUICK = dict(worlds=16, runs=500, seconds=15)
THOROUGH = dict(worlds=256, runs=2500, seconds=30)
RULE = ("seeded blackbox-free lint-clean circuits (<= 5 inputs, <= 10 gates) x all 3^n ternary patterns x three "
        "choices of the arbitrary binary values under X; distinct = canonical net; non-trivial = some gate is X for "
        "one pattern and masked (binary although an operand is X) for another")
PROBES = ["masked:and", "masked:nand", "masked:or", "masked:nor", "x_through_parity", "multi1", "const", "name_clash_X"]
ASSUMPTIONS = ["<= 5 inputs (all 3^n patterns), <= 14 gates, gates up to 9 operands, constants 0/1 only"]


def gen(rng, tier):
    style = rng.choice(("plain", "plain", "underscore"))
    net = G.gen_net(rng, n_inputs=(1, 5), n_gates=(1, 14) if rng.random() < 0.2 else (1, 10), types=G.swarm_types(rng),
                    max_arity=rng.randint(8, 11) if rng.random() < 0.15 else rng.randint(2, 5),
                    constants=0.35, name_style=style, input_outputs=0.1, parity_bias=rng.choice((0.0, 0.3)))
    if rng.random() < 0.3:
        # names that look like (or are stems / case variants of) the helper names ternary() creates, so that a
        # companion "<name>_X" or a uniquified helper can collide with them
        names = [n for n in net["nodes"]]
        for _ in range(rng.randint(1, 2)):
            a = rng.choice(names)
            victim = rng.choice(names)
            w = rng.choice(("X", "x_in_fi", "is_0", "is_1", "not_x", "0_not_in_fi", "1_not_in_fi", "not", "is", "x_in",
                            "0_not_in", "1_not_in", "x", "not_X", "X_0", "x_in_fi_0", "is_0_0", "not_x_0", "X_X"))
            new = f"{a}_{w}"
            if new not in net["nodes"] and victim != a and a in net["nodes"] and victim in net["nodes"]:
                net = G.rename(net, {victim: new})
                names = [n for n in net["nodes"]]
    return {"net": net, "arb_seed": rng.getrandbits(30), "peer": {"seed": rng.getrandbits(32)}}


def run(case, ctx):
    import random
    cg = ctx.cg
    net = case["net"]
    if not ref.is_lint_clean(net) or ref.is_cyclic(net) or net["bbs"]:
        raise Skip("precondition")
    ins = ref.inputs(net)
    if len(ins) > 5 or any(v[0] == "x" for v in net["nodes"].values()):
        raise Skip("bounds")
    nodes = net["nodes"]
    if any(n.endswith(("_X", "_x_in_fi", "_is_0", "_is_1", "_not_x", "_0_not_in_fi", "_not", "_is", "_x", "_not_X")) for n in nodes):
        ctx.probe("name_clash_X")
    feats = G.features(net)
    for f in ("multi1", "const"):
        if f in feats:
            ctx.probe(f)
    c = ref.build(cg, net)
    before = ref.snapshot(c)
    sig = {}
    res = ctx.call("C10.raises", sig, cg.tx.ternary, c)
    t, mapping = res
    ts = ref.snapshot(t)
    ctx.log("ternary", state_digest(t), sorted(mapping.items()))
    if ref.snapshot(c) != before:
        ctx.violate("C10.mutated_arg", "ternary changed its argument", sig)
    if set(mapping) != set(nodes):
        ctx.violate("C10.mapping_keys", f"mapping keys {sorted(mapping)} != nodes {sorted(nodes)}", sig)
    if len(set(mapping.values())) != len(mapping) or set(mapping.values()) & set(nodes):
        ctx.violate("C10.mapping_alias", f"companion names are not distinct from each other and from the nodes: {mapping}", sig)
    bad = ref.wiring_violations(ts, undriven=True)
    if bad or ref.is_cyclic(ts):
        ctx.violate("C10.illegal", f"result is ill-formed: {bad[:3]}", sig)
    want_in = sorted(set(ins) | {mapping[i] for i in ins})
    if ref.inputs(ts) != want_in:
        ctx.violate("C10.inputs", f"inputs {ref.inputs(ts)} != {want_in}", sig)
    if sorted(ref.free_nodes(ts)) != want_in:
        ctx.violate("C10.free", f"free signals {sorted(ref.free_nodes(ts))} != {want_in}", sig)
    order_c = ref.topo_order(net)
    order_t = ref.topo_order(ts)
    rnd = random.Random(case["arb_seed"])
    seen_x = set()
    seen_masked = set()
    for pat in product((0, 1, ref.X), repeat=len(ins)):
        kv = ref.kleene(net, dict(zip(ins, pat)), order_c)
        for n, (ty, fi, o) in nodes.items():
            if ty in ref.GATES:
                if kv[n] == ref.X:
                    seen_x.add(n)
                    if ty in ("xor", "xnor"):
                        ctx.probe("x_through_parity")
                elif any(kv[f] == ref.X for f in fi):
                    seen_masked.add(n)
                    if ty in ("and", "nand", "or", "nor"):
                        ctx.probe(f"masked:{ty}")
        for arb in ("zeros", "ones", "random"):
            asg = {}
            for i, v in zip(ins, pat):
                if v == ref.X:
                    asg[mapping[i]] = 1
                    asg[i] = 0 if arb == "zeros" else (1 if arb == "ones" else rnd.getrandbits(1))
                else:
                    asg[mapping[i]] = 0
                    asg[i] = v
            tv = ref.evaluate(ts, asg, order_t)
            ctx.stats["evaluations"] += 1
            for n in order_c:
                isx = kv[n] == ref.X
                if tv[mapping[n]] != int(isx):
                    ctx.violate("C10.x_flag", f"pattern {dict(zip(ins, pat))} (X inputs set to {arb}): companion of {n} "
                                f"({nodes[n][0]}/{len(nodes[n][1])}) is {tv[mapping[n]]} but Kleene value is {kv[n]}",
                                dict(sig, type=nodes[n][0]))
                if not isx and tv[n] != kv[n]:
                    ctx.violate("C10.value", f"pattern {dict(zip(ins, pat))} (X inputs set to {arb}): node {n} carries "
                                f"{tv[n]} but Kleene value is {kv[n]}", dict(sig, type=nodes[n][0]))
    ctx.stats["steps"] += 1
    if seen_x & seen_masked:
        ctx.stats["nontrivial"] += 1


def sig_key(sig):
    return (sig.get("type"), sig.get("exc"))


def shrink(case):
    for net in G.shrink_net(case["net"]):
        if net is not None and ref.is_lint_clean(net) and not ref.is_cyclic(net):
            yield dict(case, net=net)


def fingerprint(case, r):
    if r["stats"].get("nontrivial"):
        return fp(ref.canon(case["net"]))
    return None


def sample(case, r):
    return {"net": case["net"], "patterns_evaluated": r["stats"].get("evaluations")}
