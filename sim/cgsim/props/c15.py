"""C15 - bench reader and writer are faithful.

Explores the hash world (the writer emits in set order and picks an arbitrary input for its
constant encoding) over generated bench texts and generated circuits."""
from cgsim import gen as G, ref
from cgsim.core import fp, Skip, state_digest

ID = "C15"
QUICK = dict(worlds=16, runs=1500, seconds=15)
THOROUGH = dict(worlds=256, runs=5000, seconds=30)
RULE = ("(reader) bench texts rendered from a seeded abstract netlist with layout variants; (writer) seeded "
        "blackbox-free circuits with >= 1 input; distinct = abstract netlist/circuit fingerprint + layout; "
        "non-trivial = at least one gate whose function depends on an input")
PROBES = ["const0", "const1", "dff_fed_by_later_dff", "output_declared_first", "lower_case", "BUFF", "dup_operand_parity",
          "dup_operand_andor", "one_operand_gate", "reader", "writer", "output_is_input", "dff", "unrepresentable_name"]
ASSUMPTIONS = ["no whitespace between a gate keyword and '(' and no mixed-case keywords (not part of the dialect)",
               "<= 6 inputs, <= 14 gates, <= 3 DFFs"]


def gen_abstract(rng):
    n_in = rng.randint(1, 5)
    names = []

    odd_names = rng.random() < 0.2

    def fresh():
        while True:
            n = rng.choice(("G", "n", "N", "net_", "w", "x")) + str(rng.randrange(60))
            if rng.random() < 0.2:
                n = rng.choice(("a", "b", "sig", "q")) + "_" + str(rng.randrange(9))
            if odd_names and rng.random() < 0.25:
                # names other tools and this library's own Verilog reader produce: leading underscore, `$`, brackets
                n = rng.choice(("_a", "_", "a$", "b$x", "n[", "y'", "w:", "\\e")) + str(rng.randrange(9)) + rng.choice(("", "]", "$"))
            if n not in names:
                names.append(n)
                return n
    inputs = [fresh() for _ in range(n_in)]
    n_dff = rng.choice((0, 0, 1, 2, 3))
    qs = [fresh() for _ in range(n_dff)]
    gates = []
    avail = inputs + qs
    allow_dup = rng.random() < 0.3
    for _ in range(rng.randint(1, 12)):
        t = rng.choice(("and", "nand", "or", "nor", "xor", "xnor", "buf", "not"))
        if t in ("buf", "not"):
            ops = [rng.choice(avail)]
        else:
            k = rng.randint(1, min(5, len(avail))) if rng.random() < 0.15 else rng.randint(2, max(2, min(5, len(avail))))
            k = min(k, len(avail))
            ops = rng.sample(avail, k)
            if allow_dup and rng.random() < 0.35:
                ops.insert(rng.randrange(len(ops) + 1), rng.choice(ops))
                if rng.random() < 0.3:
                    ops.insert(rng.randrange(len(ops) + 1), rng.choice(ops))
        g = fresh()
        gates.append([g, t, ops])
        avail.append(g)
    dffs = []
    for q in qs:
        dffs.append([q, rng.choice(avail)])
    cands = [g[0] for g in gates] + qs + (inputs if rng.random() < 0.2 else [])
    outputs = rng.sample(cands, rng.randint(1, min(4, len(cands))))
    return {"inputs": inputs, "outputs": outputs, "gates": gates, "dffs": dffs}


def render(rng, ab):
    lower_all = rng.random() < 0.25

    def kw(s):
        if lower_all or rng.random() < 0.15:
            return s.lower()
        return s.upper()

    def sp(p=0.3):
        return rng.choice((" ", "  ", "\t")) if rng.random() < p else ""

    lines_in = [f"{kw('INPUT')}{sp(0.2)}({sp()}{n}{sp()})" for n in ab["inputs"]]
    lines_out = [f"{kw('OUTPUT')}{sp(0.2)}({sp()}{n}{sp()})" for n in ab["outputs"]]
    lines_g = []
    for g, t, ops in ab["gates"]:
        name = t
        if t == "buf" and rng.random() < 0.5:
            name = "buff"
        # white space on either side of every comma, chosen per comma
        def after_comma():
            # an operand list may continue on the next line
            return rng.choice(("\n", "\n    ", "\n\t")) if rng.random() < 0.06 else sp(0.7)
        args = ops[0] + "".join(sp(0.25) + "," + after_comma() + o for o in ops[1:])
        lines_g.append(f"{g}{sp(0.8)}={sp(0.8)}{kw(name)}{sp(0.15)}({sp(0.2)}{args}{sp(0.2)})")
    lines_d = [f"{q}{sp(0.8)}={sp(0.8)}{kw('DFF')}{sp(0.15)}({sp(0.2)}{d}{sp(0.2)})" for q, d in ab["dffs"]]
    mode = rng.choice(("canonical", "outputs_first", "shuffled", "shuffled"))
    if mode == "canonical":
        lines = lines_in + [""] + lines_out + [""] + lines_g + lines_d
    elif mode == "outputs_first":
        lines = lines_out + lines_in + lines_d + lines_g
    else:
        lines = lines_in + lines_out + lines_g + lines_d
        rng.shuffle(lines)
        for _ in range(rng.randint(0, 3)):
            lines.insert(rng.randrange(len(lines) + 1), "")
    head = ["# generated bench"] if rng.random() < 0.6 else []
    if rng.random() < 0.15 and ab["gates"]:
        # comment lines whose text looks like statements (a commented-out old version, notes about the io)
        g, t, ops = rng.choice(ab["gates"])
        other = rng.choice([x for x in ("and", "or", "nand", "nor", "xor", "not", "buf") if x != t])
        cl = [f"# old version: {g} = {other.upper()}({', '.join(ops)})", f"#INPUT({g})", f"# OUTPUT({ops[0]})",
              f"#{sp()}{g} = {kw(other)}({ops[0]})"]
        for line in rng.sample(cl, rng.randint(1, 2)):
            lines.insert(rng.randrange(len(lines) + 1), line)
    text = "\n".join(head + lines) + ("\n" if rng.random() < 0.7 else "")
    crlf = rng.random() < 0.1
    if crlf:
        text = text.replace("\n", "\r\n")     # a file written on another platform
    return text, {"lower_all": lower_all, "mode": mode, "crlf": crlf}


def gen(rng, tier):
    if rng.random() < 0.55:
        ab = gen_abstract(rng)
        text, meta = render(rng, ab)
        return {"kind": "reader", "abstract": ab, "text": text, "meta": meta, "peer": {"seed": rng.getrandbits(32)}}
    big = tier == "thorough" and rng.random() < 0.25
    net = G.gen_net(rng, n_inputs=(2, 7) if big else (1, 5), n_gates=(10, 24) if big else (1, 12), types=G.swarm_types(rng),
                    max_arity=rng.randint(2, 5), constants=rng.choice((0.0, 0.6, 1.0)), name_style=rng.choice(("plain", "underscore")),
                    input_outputs=rng.choice((0.0, 0.2)), name=rng.choice(("top", "c17", "my_ckt")))
    if rng.random() < 0.15:
        # node names as other tools (and this library's Verilog reader) produce them
        plain = [n for n in net["nodes"]]
        mp = {}
        for j, n in enumerate(rng.sample(plain, min(len(plain), rng.randint(1, 3)))):
            mp[n] = rng.choice(("_a", "_", "a$", "b$x", "n[", "y'", "w:", "\\e")) + str(j) + rng.choice(("", "]", "$"))
        net = G.rename(net, mp)
    elif rng.random() < 0.06:
        # names the bench syntax has no way to write (this library's Verilog reader keeps escaped identifiers such
        # as `\\sum(0) ` and `\\a,b ` verbatim): nothing but a refusal is right for them
        n = rng.choice(sorted(net["nodes"]))
        net = G.rename(net, {n: rng.choice(("\\s(0)", "a,b", "p=q", "k#1", "x y", "\\bus[0] ", "f(", "g)",
                                              # white space is more than blank and tab: the reader splits at every \\s character
                                              "en\u00a0b", "w\u2003", "k\x1cq", "n\x85m", "t\tu", "r\u3000"))})
    return {"kind": "writer", "net": net, "peer": {"seed": rng.getrandbits(32)}}


def abstract_net(ab):
    nodes = {}
    bbs = {}
    for n in ab["inputs"]:
        nodes[n] = ["input", [], False]
    for g, t, ops in ab["gates"]:
        nodes[g] = [t, list(ops), False]     # duplicates kept: semantics of the text
    for q, d in ab["dffs"]:
        inst = f"{q}_dff"
        bbs[inst] = ["dff", ["D"], ["Q"]]
        nodes[f"{inst}.D"] = ["bb_input", [d], False]
        nodes[f"{inst}.Q"] = ["bb_output", [], False]
        nodes[q] = ["buf", [f"{inst}.Q"], False]
    for o in ab["outputs"]:
        nodes[o][2] = True
    return {"name": "abs", "nodes": nodes, "bbs": bbs}


def run(case, ctx):
    cg = ctx.cg
    if case["kind"] == "reader":
        ctx.probe("reader")
        ab = case["abstract"]
        text = case["text"]
        want = abstract_net(ab)
        if ref.is_cyclic(want):
            raise Skip("cyclic")
        dup_par = any(t in ("xor", "xnor") and len(set(ops)) != len(ops) for g, t, ops in ab["gates"])
        dup_ao = any(t not in ("xor", "xnor") and len(set(ops)) != len(ops) for g, t, ops in ab["gates"])
        if dup_par:
            ctx.probe("dup_operand_parity")
        if dup_ao:
            ctx.probe("dup_operand_andor")
        if any(len(ops) == 1 and t in ref.MULTI for g, t, ops in ab["gates"]):
            ctx.probe("one_operand_gate")
        if case["meta"]["lower_all"]:
            ctx.probe("lower_case")
        if "BUFF" in text or "buff" in text:
            ctx.probe("BUFF")
        if case["meta"]["mode"] == "outputs_first":
            ctx.probe("output_declared_first")
        if ab["dffs"]:
            ctx.probe("dff")
        qs = [q for q, d in ab["dffs"]]
        pos = {q: text.find(f"{q} ") if text.find(f"{q}=") < 0 else text.find(f"{q}=") for q in qs}
        later = False
        for q, d in ab["dffs"]:
            if d in qs and d != q:
                # line order: is d's DFF line after q's?
                iq = min(i for i, ln in enumerate(text.split("\n")) if ln.split("=")[0].strip() == q)
                idd = min(i for i, ln in enumerate(text.split("\n")) if ln.split("=")[0].strip() == d)
                if idd > iq:
                    later = True
        if later:
            ctx.probe("dff_fed_by_later_dff")
        if any(o in ab["inputs"] for o in ab["outputs"]):
            ctx.probe("output_is_input")
        sig = {"kind": "reader", "dup_parity": dup_par, "dff_later": later}
        c = ctx.call("C15.reader_raises", sig, cg.io.bench_to_circuit, text, "abs")
        got = ref.snapshot(c)
        ctx.log("read", state_digest(c))
        if ref.inputs(got) != sorted(ab["inputs"]):
            ctx.violate("C15.reader_inputs", f"inputs {ref.inputs(got)} != declared {sorted(ab['inputs'])}", sig)
        if ref.outputs(got) != sorted(set(ab["outputs"])):
            ctx.violate("C15.reader_outputs", f"outputs {ref.outputs(got)} != declared {sorted(set(ab['outputs']))}", sig)
        bad = ref.wiring_violations(got, undriven=True)
        if bad:
            ctx.violate("C15.reader_illegal", f"reader produced an ill-formed circuit: {bad[:3]}", sig)
        # DFF structure, identified by connectivity
        canon_map = {}
        for q, d in ab["dffs"]:
            drv = got["nodes"].get(q, [None, [], False])
            if drv[0] != "buf" or len(drv[1]) != 1 or got["nodes"][drv[1][0]][0] != "bb_output":
                ctx.violate("C15.reader_dff", f"Q net {q} is not a buffer driven by a flip-flop output pin: {drv}", sig)
            pin = drv[1][0]
            inst = pin.split(".")[0]
            if inst not in got["bbs"] or got["bbs"][inst][0] != "dff":
                ctx.violate("C15.reader_dff", f"instance {inst} missing or not of type dff", sig)
            dpins = [f"{inst}.{p}" for p in got["bbs"][inst][1]]
            if len(dpins) != 1 or got["nodes"].get(dpins[0], [None, []])[1] != [d]:
                ctx.violate("C15.reader_dff", f"D pin of {inst} is driven by {got['nodes'].get(dpins[0])} instead of {d}", sig)
            canon_map[pin] = f"{q}_dff.Q"
            canon_map[dpins[0]] = f"{q}_dff.D"
        if len(got["bbs"]) != len(ab["dffs"]):
            ctx.violate("C15.reader_dff", f"{len(got['bbs'])} instances for {len(ab['dffs'])} DFF lines", sig)
        got_c = G.rename({"name": "x", "nodes": got["nodes"], "bbs": {}}, canon_map)
        free = ref.free_nodes(want)
        if sorted(ref.free_nodes(got_c)) != free:
            ctx.violate("C15.reader_free", f"free signals {sorted(ref.free_nodes(got_c))} != {free}", sig)
        tw, _, full = ref.truth_tables(want, free)
        tg, _, _ = ref.truth_tables(got_c, free)
        dep = False
        for n in ref.topo_order(want):
            if n not in tg:
                ctx.violate("C15.reader_missing", f"net {n} missing", sig)
            if tw[n] != tg[n]:
                t, ops, _ = want["nodes"][n]
                isdup = t in ("xor", "xnor") and len(set(ops)) != len(ops)
                ctx.violate("C15.reader_function", f"net {n} = {t.upper()}({', '.join(ops)}) reads back with a different "
                            f"function ({got['nodes'][n][0]} of {got['nodes'][n][1]}), e.g. under "
                            f"{ref.witness(tw[n], tg[n], free)}", dict(sig, dup_here=isdup, type=t))
            if want["nodes"][n][0] in ref.GATES and tw[n] not in (0, full):
                dep = True
        if dep:
            ctx.stats["nontrivial"] += 1
        ctx.stats["steps"] += 1
        return
    # writer -> reader
    ctx.probe("writer")
    net = case["net"]
    if not ref.is_lint_clean(net) or ref.is_cyclic(net) or net["bbs"] or not ref.inputs(net):
        raise Skip("precondition")
    import re
    unrep = sorted(n for n in net["nodes"] if not re.fullmatch(r"[^\s(),=#\d][^\s(),=#]*", n))
    if unrep and any(n[:1].isdigit() for n in unrep):
        raise Skip("leading digit")
    has0 = any(v[0] == "0" for v in net["nodes"].values())
    has1 = any(v[0] == "1" for v in net["nodes"].values())
    if has0:
        ctx.probe("const0")
    if has1:
        ctx.probe("const1")
    if any(v[0] == "input" and v[2] for v in net["nodes"].values()):
        ctx.probe("output_is_input")
    sig = {"kind": "writer", "const": has0 or has1}
    c = ref.build(cg, net)
    if unrep:
        # white space, parentheses, comma, '=', '#': the format cannot carry the name.  The writer may refuse
        # (ValueError); text that reads back as some other circuit is judged like any other round trip below
        ctx.probe("unrepresentable_name")
        sig["unrepresentable"] = True
        try:
            ctx.warm(cg.io.circuit_to_bench, c)
            text = cg.io.circuit_to_bench(c)
        except ValueError:
            ctx.stats["steps"] += 1
            return
        except Exception as e:
            ctx.violate("C15.writer_raises", f"circuit_to_bench raised {type(e).__name__}: {e}", sig)
            return
        try:
            ctx.warm(cg.io.bench_to_circuit, text, c.name)
            c2 = cg.io.bench_to_circuit(text, c.name)
        except Exception as e:
            ctx.violate("C15.rt_unreadable", f"circuit_to_bench wrote text for a circuit with the net {unrep[0]!r} that "
                        f"bench_to_circuit cannot read back ({type(e).__name__}: {e}); text:\n{text}", sig)
            return
    else:
        text = ctx.call("C15.writer_raises", sig, cg.io.circuit_to_bench, c)
    ctx.log("text", fp(text))
    ctx.observe_order([ln for ln in text.split("\n") if "=" in ln][:5])
    c2 = ctx.call("C15.roundtrip_reader_raises", sig, cg.io.bench_to_circuit, text, c.name)
    got = ref.snapshot(c2)
    ctx.log("read", state_digest(c2))
    if ref.inputs(got) != ref.inputs(net):
        ctx.violate("C15.rt_inputs", f"inputs {ref.inputs(got)} != {ref.inputs(net)}", sig)
    if ref.outputs(got) != ref.outputs(net):
        ctx.violate("C15.rt_outputs", f"outputs {ref.outputs(got)} != {ref.outputs(net)}", sig)
    if got["bbs"] or ref.wiring_violations(got, undriven=True) or ref.is_cyclic(got):
        ctx.violate("C15.rt_illegal", f"round trip produced an ill-formed circuit {ref.wiring_violations(got, undriven=True)[:3]}", sig)
    free = ref.inputs(net)
    if sorted(ref.free_nodes(got)) != free:
        ctx.violate("C15.rt_free", f"free signals {sorted(ref.free_nodes(got))} != {free}", sig)
    tw, _, full = ref.truth_tables(net, free)
    tg, _, _ = ref.truth_tables(got, free)
    dep = False
    for o in ref.outputs(net):
        if tw[o] != tg[o]:
            ctx.violate("C15.rt_function", f"output {o} changed function over the round trip, e.g. under "
                        f"{ref.witness(tw[o], tg[o], free)}; text:\n{text}", sig)
        if tw[o] not in (0, full):
            dep = True
    if dep:
        ctx.stats["nontrivial"] += 1
    ctx.stats["steps"] += 1


def sig_key(sig):
    return (sig.get("kind"), sig.get("exc"), sig.get("dup_here"), sig.get("const"))


def _render_plain(ab):
    lines = [f"INPUT({n})" for n in ab["inputs"]] + [f"OUTPUT({n})" for n in ab["outputs"]]
    lines += [f"{g} = {t.upper()}({', '.join(ops)})" for g, t, ops in ab["gates"]]
    lines += [f"{q} = DFF({d})" for q, d in ab["dffs"]]
    return "\n".join(lines) + "\n"


def _filter_text(text, ab):
    """Drop / re-render the lines of `text` so that it denotes `ab`, keeping order and layout."""
    import re
    gates = {g: (t, ops) for g, t, ops in ab["gates"]}
    dffs = dict((q, d) for q, d in ab["dffs"])
    out = []
    for ln in text.split("\n"):
        m = re.match(r"\s*(INPUT|input|OUTPUT|output)\s*\(\s*([a-zA-Z][a-zA-Z\d_]*)\s*\)\s*$", ln)
        if m:
            lst = ab["inputs"] if m.group(1).lower() == "input" else ab["outputs"]
            if m.group(2) in lst:
                out.append(ln)
            continue
        m = re.match(r"\s*([a-zA-Z][a-zA-Z\d_]*)\s*=\s*([A-Za-z]+)\(([^\)]*)\)\s*$", ln)
        if m:
            lhs, kw, args = m.group(1), m.group(2), [a.strip() for a in m.group(3).split(",")]
            if kw.lower() == "dff":
                if lhs in dffs:
                    out.append(ln if args == [dffs[lhs]] else f"{lhs} = {kw}({dffs[lhs]})")
            elif lhs in gates:
                t, ops = gates[lhs]
                out.append(ln if args == list(ops) else f"{lhs} = {kw}({', '.join(ops)})")
            continue
        out.append(ln)
    return "\n".join(out)


def shrink(case):
    if case["kind"] == "writer":
        for net in G.shrink_net(case["net"]):
            if net is not None and ref.is_lint_clean(net) and not ref.is_cyclic(net) and ref.inputs(net):
                yield dict(case, net=net)
        return
    ab = case["abstract"]
    plain = _render_plain(ab)
    meta0 = {"lower_all": False, "mode": "canonical"}
    if case["text"] != plain:
        yield dict(case, text=plain, meta=meta0)

    def used(ab2):
        defined = set(ab2["inputs"]) | {g[0] for g in ab2["gates"]} | {q for q, d in ab2["dffs"]}
        for g, t, ops in ab2["gates"]:
            if any(o not in defined for o in ops):
                return False
        if any(d not in defined for q, d in ab2["dffs"]) or any(o not in defined for o in ab2["outputs"]):
            return False
        return bool(ab2["outputs"]) and bool(ab2["inputs"])

    def emit(ab2):
        if used(ab2):
            if case["text"] != plain:
                yield dict(case, abstract=ab2, text=_filter_text(case["text"], ab2))   # keeps line order + layout
            yield dict(case, abstract=ab2, text=_render_plain(ab2), meta=meta0)

    for i in range(len(ab["gates"]) - 1, -1, -1):
        g = ab["gates"][i][0]
        ab2 = dict(ab, gates=ab["gates"][:i] + ab["gates"][i + 1:], outputs=[o for o in ab["outputs"] if o != g])
        yield from emit(ab2)
    for i in range(len(ab["dffs"])):
        q = ab["dffs"][i][0]
        ab2 = dict(ab, dffs=ab["dffs"][:i] + ab["dffs"][i + 1:], outputs=[o for o in ab["outputs"] if o != q])
        yield from emit(ab2)
    for i, (g, t, ops) in enumerate(ab["gates"]):
        if len(ops) > 1:
            for j in range(len(ops)):
                ab2 = dict(ab, gates=ab["gates"][:i] + [[g, t, ops[:j] + ops[j + 1:]]] + ab["gates"][i + 1:])
                yield from emit(ab2)
    if len(ab["outputs"]) > 1:
        for o in ab["outputs"]:
            yield from emit(dict(ab, outputs=[x for x in ab["outputs"] if x != o]))
    for n in ab["inputs"]:
        yield from emit(dict(ab, inputs=[x for x in ab["inputs"] if x != n]))


def fingerprint(case, r):
    if not r["stats"].get("nontrivial"):
        return None
    if case["kind"] == "reader":
        return fp(["r", case["text"]])
    return fp(["w", ref.canon(case["net"])])


def sample(case, r):
    if case["kind"] == "reader":
        return {"kind": "reader", "text": case["text"]}
    return {"kind": "writer", "net": case["net"]}
