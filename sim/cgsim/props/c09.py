"""C09 - unrolling equals iterated execution.

The oracle is an explicit clocked state machine (state = fed-back values / flop contents; one step =
evaluate the combinational logic, latch).  The simulator contributes the hash world (order of
c.io(), which instance supplies the blackbox type) and the configuration swarm - this is the
thinnest fit of the claimed properties (see DESIGN.md)."""
from cgsim import gen as G, ref
from cgsim.core import fp, Skip, state_digest

ID = "C09"
QUICK = dict(worlds=16, runs=800, seconds=15)
THOROUGH = dict(worlds=256, runs=3000, seconds=30)
RULE = ("(unroll) seeded acyclic circuits x injective output->input pairings x n in 1..6; (sequential_unroll) circuits "
        "with 1-4 flops of one blackbox type x all flag combinations; every initial state and input sequence is "
        "evaluated bit-parallel; distinct = canonical net + configuration; non-trivial = some observed output at the "
        "last step depends on a step-0 signal through the state")
PROBES = ["n=1", "state_output_is_primary_input", "flop_feeds_flop", "initial:None", "initial:0", "initial:1",
          "initial:dict", "add_flop_outputs", "remove_unloaded", "keep_unloaded", "unroll", "sequential", "ignore_pins", "repeated_call_same_objects", "net_named_like_a_live_pin", "second_output_pin_read", "ignore_pins_as_iterator"]
ASSUMPTIONS = ["<= 14 free bits in total (state + n x inputs), <= 4 state bits, n <= 6 mostly and 10-12 in a tenth of the runs"]
TIME_UNIT = "circuit clock cycles executed by the reference state machine"


def gen(rng, tier):
    if rng.random() < 0.5:
        net = G.gen_net(rng, n_inputs=(1, 4), n_gates=(1, 9), types=G.swarm_types(rng), max_arity=3, constants=0.2,
                        name_style=rng.choice(("plain", "plain", "underscore")), input_outputs=rng.choice((0.0, 0.3)),
                        min_outputs=1)
        outs, ins = ref.outputs(net), ref.inputs(net)
        k = rng.randint(0, min(len(outs), len(ins)))
        ks = rng.sample(outs, k)
        vs = rng.sample(ins, k)
        n_it = rng.randint(1, 6)
        if rng.random() < 0.12:
            n_it = rng.randint(10, 12)    # two-digit iteration numbers in the generated names
        prefix = rng.choice(("cg_unroll", "cg_unroll", "t"))
        if rng.random() < 0.15:
            # a circuit that was produced by an earlier unrolling (or just happens to use such names): one of its nodes
            # is called like an io node this unrolling is going to create, <io>_<prefix>_<step>
            io = ref.inputs(net) + ref.outputs(net)
            victims = [x for x in net["nodes"] if x not in ks and x not in vs]
            if io and victims:
                new = f"{rng.choice(io)}_{prefix}_{rng.randrange(n_it)}"
                if new not in net["nodes"]:
                    net = G.rename(net, {rng.choice(victims): new})
        return {"kind": "unroll", "net": net, "n": n_it, "state_io": dict(zip(ks, vs)),
                "prefix": prefix, "peer": {"seed": rng.getrandbits(32)}}
    pins_in = rng.choice((["clk", "d"], ["clk", "rst", "d"], ["d"]))
    tname = rng.choice(("dff", "ff"))
    nflops = rng.randint(1, 4)
    # a flop type with a second output pin (an inverted output, a scan output)
    r_po = rng.random()
    pins_out = ["q", "qn"] if r_po < 0.08 else ["q"]
    spare_out = 0.08 <= r_po < 0.2      # ... or one that nothing reads (added below, to every instance)
    net = G.gen_net(rng, n_inputs=(1, 3), n_gates=(1, 9), types=G.swarm_types(rng), max_arity=3, constants=0.15,
                    bbs=(nflops, nflops), bb_types=[(tname, pins_in, pins_out)], name_style="plain", min_outputs=1,
                    input_outputs=0.1)
    nodes = net["nodes"]
    # dedicated clock / reset inputs for the non-data pins
    for p in pins_in:
        if p != "d":
            nodes[p + "_in"] = ["input", [], False]
    sigs = [n for n, v in nodes.items() if v[0] not in ("bb_input", "bb_output") and not n.endswith("_in")]
    for inst in net["bbs"]:
        for p in pins_in:
            if p == "d":
                if not nodes[f"{inst}.d"][1]:
                    nodes[f"{inst}.d"][1] = [rng.choice(sigs)]
            else:
                nodes[f"{inst}.{p}"][1] = [p + "_in"]
    if rng.random() < 0.15:
        # a flop whose Q pin is not connected to anything (an unobserved state bit)
        inst = "dead0"
        if inst not in net["bbs"] and not any(n.startswith(inst) for n in nodes):
            net["bbs"][inst] = [tname, list(pins_in), list(pins_out)]
            for p in pins_in:
                nodes[f"{inst}.{p}"] = ["bb_input", [rng.choice(sigs)] if p == "d" else [p + "_in"], False]
            for p in pins_out:
                nodes[f"{inst}.{p}"] = ["bb_output", [], False]
    if spare_out:
        for inst, v in net["bbs"].items():
            v[2] = list(v[2]) + ["qn"]
            nodes[f"{inst}.qn"] = ["bb_output", [], False]
    # flop feeding flop directly
    insts = list(net["bbs"])
    if len(insts) >= 2 and rng.random() < 0.4:
        a, b = rng.sample(insts, 2)
        qbuf = [n for n, v in nodes.items() if v[1] == [f"{a}.q"]]
        if qbuf:
            nodes[f"{b}.d"][1] = [qbuf[0]]
    ignore = rng.choice((None, [p for p in pins_in if p != "d"], "clk"))
    if "clk" not in pins_in and ignore == "clk":
        ignore = None
    ignored = [] if ignore is None else ([ignore] if isinstance(ignore, str) else list(ignore))
    if rng.random() < 0.3:
        # ordinary nets named like the io that the flop pins turn into: <stem>_<pin> (sys_clk, div2_q, n_rst ...)
        plain = [n for n in nodes if "." not in n and not n.endswith("_in")]
        mp = {}
        for n in rng.sample(plain, min(len(plain), rng.randint(1, 2))):
            new = f"{rng.choice(('sys', 'n', 'div2', 'x'))}_{rng.choice(pins_in + ['q'])}"
            if ignored and rng.random() < 0.4:
                # ... or exactly <flop>_<pin> for a pin that is IGNORED: no io of that name is ever created, so the
                # net (`ff0_clk`, a common netlist naming style) is an ordinary node that must survive
                new = f"{rng.choice(insts)}_{rng.choice(ignored)}"
            if new not in nodes and new not in mp.values() and (new.split('_')[0] not in insts or new.split('_', 1)[1] in ignored):
                mp[n] = new
        net = G.rename(net, mp)
        nodes = net["nodes"]
    elif rng.random() < 0.05:
        # the very common netlist style `dff ff0(.d(ff0_d), .q(ff0_q))`: a net called <flop>_<pin> for a pin that is
        # NOT ignored (known finding KF-C09-1: strip_blackboxes refuses such circuits)
        plain = [n for n in nodes if "." not in n and not n.endswith("_in")]
        live = [p for p in pins_in + ["q"] if p not in ignored]
        new = f"{rng.choice(insts)}_{rng.choice(live)}"
        if plain and new not in nodes:
            net = G.rename(net, {rng.choice(plain): new})
            nodes = net["nodes"]
    if rng.random() < 0.2:
        # instance names and net names are separate namespaces: a flop may be called like a primary input or output
        # (a registered output `r` driven by flop instance `r`)
        ionames = [n for n, v in nodes.items() if "." not in n and (v[0] == "input" or v[2]) and not n.endswith("_in")]
        if ionames:
            old_i, new_i = rng.choice(insts), rng.choice(ionames)
            if new_i not in net["bbs"] and not any(n.startswith(new_i + ".") or n.startswith(new_i + "_") for n in nodes):
                def rn(x):
                    return new_i + x[len(old_i):] if x.startswith(old_i + ".") else x
                net = {"name": net["name"], "bbs": {(new_i if k == old_i else k): v for k, v in net["bbs"].items()},
                       "nodes": {rn(n): [t, [rn(f) for f in fi], o] for n, (t, fi, o) in nodes.items()}}
                nodes = net["nodes"]
                insts = list(net["bbs"])
    iv = rng.choice((None, None, "0", "1", "dict"))
    if iv == "dict":
        iv = {i: rng.choice(("0", "1")) for i in insts if rng.random() < 0.7}
    return {"kind": "sequential", "net": net, "n": rng.randint(10, 12) if rng.random() < 0.1 else rng.randint(1, 5), "d": "d", "q": "q",
            "ignore_pins": ignore, "ignore_iter": rng.random() < 0.2,
            "add_flop_outputs": rng.random() < 0.5, "initial_values": iv, "remove_unloaded": rng.random() < 0.6,
            "repeat_first": rng.random() < 0.35,
            "peer": {"seed": rng.getrandbits(32)}}


def run(case, ctx):
    cg = ctx.cg
    net = case["net"]
    nodes = net["nodes"]
    if ref.wiring_violations(net, undriven=True) or ref.is_cyclic(net):
        raise Skip("precondition")
    n = case["n"]
    if n == 1:
        ctx.probe("n=1")
    c = ref.build(cg, net)
    before = ref.snapshot(c)
    if case["kind"] == "unroll":
        ctx.probe("unroll")
        if net["bbs"]:
            raise Skip("unroll workload is blackbox-free")
        sio = case["state_io"]
        ins, outs = ref.inputs(net), ref.outputs(net)
        if any(k not in outs or v not in ins for k, v in sio.items()) or len(set(sio.values())) != len(sio):
            raise Skip("pairing not injective output->input")
        other_in = [i for i in ins if i not in sio.values()]
        nbits = len(sio) + n * len(other_in)
        if nbits > 14:
            raise Skip("too many free bits")
        if any(nodes[k][0] == "input" for k in sio):
            ctx.probe("state_output_is_primary_input")
        sig = {"kind": "unroll", "k_is_input": any(nodes[k][0] == "input" for k in sio)}
        sio_obj = dict(sio)
        res = ctx.call("C09.unroll_raises", sig, cg.tx.unroll, c, n, sio_obj, prefix=case["prefix"])
        uc, io_map = res
        us = ref.snapshot(uc)
        # the caller keeps using its own argument objects: a second call with the very same objects must give the
        # same circuit (catches arguments consumed or edited by the first call)
        res2 = ctx.call("C09.unroll_raises", dict(sig, repeat=True), cg.tx.unroll, c, n, sio_obj, prefix=case["prefix"])
        if ref.snapshot(res2[0]) != us or res2[1] != io_map:
            ctx.violate("C09.repeat_call", f"a second unroll() call with the same argument objects gives a different result "
                        f"(state_io object is now {sio_obj})", dict(sig, repeat=True))
        ctx.log("unroll", state_digest(uc), sorted((k, v) for k, v in io_map.items()))
        if ref.snapshot(c) != before:
            ctx.violate("C09.mutated_arg", "unroll changed its argument", sig)
        if ref.is_cyclic(us) or ref.wiring_violations(us):
            ctx.violate("C09.illegal", f"unrolled circuit ill-formed: {ref.wiring_violations(us)[:3]}", sig)
        if set(io_map) != set(ins) | set(outs) or any(len(v) != n for v in io_map.values()):
            ctx.violate("C09.io_map", f"io_map keys/lengths wrong: { {k: len(v) for k, v in io_map.items()} } for n={n}", sig)
        # free variables: step-0 state inputs, then per step the other inputs
        free_names = [io_map[v][0] for v in sio.values()] + [io_map[i][t] for t in range(n) for i in other_in]
        if sorted(ref.inputs(us)) != sorted(free_names):
            ctx.violate("C09.free_inputs", f"inputs of the unrolled circuit {sorted(ref.inputs(us))} != step-0 state inputs + "
                        f"per-step copies of the other inputs {sorted(free_names)}", sig)
        if sorted(ref.free_nodes(us)) != sorted(free_names):
            ctx.violate("C09.free_inputs", f"free signals {sorted(ref.free_nodes(us))} != {sorted(free_names)}", sig)
        K = len(free_names)
        vt = ref.var_tts(K)
        pos = {nm: i for i, nm in enumerate(free_names)}
        tu, _, full = ref.truth_tables(us, free_names)
        state = {v: vt[pos[io_map[v][0]]] for v in sio.values()}
        dep = False
        for t in range(n):
            fixed = dict(state)
            for i in other_in:
                fixed[i] = vt[pos[io_map[i][t]]]
            tc, _, _ = ref.truth_tables(net, [], fixed=fixed, k=K)
            ctx.stats["cycles"] += 1
            for o in outs:
                if tu[io_map[o][t]] != tc[o]:
                    ctx.violate("C09.unroll_value", f"step {t}: io_map[{o}][{t}]={io_map[o][t]} differs from running the circuit "
                                f"{t + 1} steps, e.g. under {ref.witness(tu[io_map[o][t]], tc[o], free_names)}", sig)
            for i in ins:
                if tu[io_map[i][t]] != fixed[i]:
                    ctx.violate("C09.unroll_input", f"step {t}: io_map[{i}][{t}] does not carry the input/state value", sig)
            state = {v: tc[k] for k, v in sio.items()}
            if t == n - 1 and n > 1 and sio:
                s0 = 0
                for v in sio.values():
                    s0 |= 1 << pos[io_map[v][0]]
                for o in outs:
                    f = tc[o]
                    for b in range(K):
                        if (s0 >> b) & 1 and (f != ((f & vt[b]) >> (1 << b) | (f & ~vt[b] & full) << (1 << b))):
                            dep = True
        if dep or (n == 1 and sio):
            ctx.stats["nontrivial"] += 1
        ctx.stats["steps"] += 1
        return
    # ---------------- sequential_unroll
    ctx.probe("sequential")
    insts = sorted(net["bbs"])
    if not insts:
        raise Skip("no flops")
    d, q = case["d"], case["q"]
    tname, pin_in, pin_out = net["bbs"][insts[0]]
    iv = case["initial_values"]
    ctx.probe("initial:" + ("None" if iv is None else ("dict" if isinstance(iv, dict) else iv)))
    ctx.probe("remove_unloaded" if case["remove_unloaded"] else "keep_unloaded")
    if case["add_flop_outputs"]:
        ctx.probe("add_flop_outputs")
    if case["ignore_pins"]:
        ctx.probe("ignore_pins")
    fo = ref.fanout_map(net)
    ins = ref.inputs(net)
    outs = ref.outputs(net)
    # a primary input is "unloaded" after the non-data pins are gone
    loaded = {}
    for i in ins:
        loads = [l for l in fo[i] if not (nodes[l][0] == "bb_input" and l.split(".")[-1] != d)]
        loaded[i] = bool(loads) or bool(nodes[i][2])    # an output counts as loaded
    kept_in = [i for i in ins if loaded[i] or not case["remove_unloaded"]]
    qbuf = {}
    for inst in insts:
        l = fo[f"{inst}.{q}"]
        if not l:
            ctx.probe("unconnected_q_pin")   # its step-0 state input is still one of the free inputs
        if not nodes[f"{inst}.{d}"][1]:
            raise Skip("undriven d pin")
        drv = nodes[f"{inst}.{d}"][1][0]
        if nodes[drv][0] == "buf" and nodes[drv][1] and nodes[drv][1][0].endswith("." + q):
            ctx.probe("flop_feeds_flop")
    init = {}
    for inst in insts:
        if iv is None:
            init[inst] = None
        elif isinstance(iv, dict):
            init[inst] = iv.get(inst)
        else:
            init[inst] = iv
    free_state = [inst for inst in insts if init[inst] is None]
    nbits = len(free_state) + n * len(kept_in)
    if nbits > 14:
        raise Skip("too many free bits")
    sig = {"kind": "sequential", "iv": "None" if iv is None else ("dict" if isinstance(iv, dict) else iv),
           "add_flop_outputs": case["add_flop_outputs"], "remove_unloaded": case["remove_unloaded"]}
    iv_obj = iv if iv is None or isinstance(iv, str) else dict(iv)
    ip_obj = list(case["ignore_pins"]) if isinstance(case["ignore_pins"], list) else case["ignore_pins"]
    ign = [] if not ip_obj else ([ip_obj] if isinstance(ip_obj, str) else list(ip_obj))
    pin_named = sorted(f"{i}_{p}" for i in insts for p in pin_in + pin_out if p not in ign and f"{i}_{p}" in nodes)
    if pin_named:
        ctx.probe("net_named_like_a_live_pin")
        try:
            cg.tx.strip_blackboxes(c, ignore_pins=ip_obj)
        except ValueError as e:
            if "Overlapping blackbox name" in str(e):
                ctx.violate("C09.name_overlap", f"a net of the circuit is called {pin_named[0]} (<flop>_<pin>): sequential_unroll "
                            f"cannot even strip the flops: {e}", {"kind": "sequential", "pin_named_net": True, "exc": "ValueError"})
    extra_used = sorted(f"{i}.{p}" for i in insts for p in pin_out if p != q and p not in ign and fo[f"{i}.{p}"])
    if extra_used:
        # logic reads an output pin of the flops other than Q: the flop is a blackbox, nothing says what that pin
        # carries, so no unrolled circuit can match the simulation.  The only sound outcome is a refusal; a circuit
        # in which the readers of that pin silently lost their driver is not.
        ctx.probe("second_output_pin_read")
        sigx = dict(sig, second_output_read=True)
        try:
            ctx.warm(cg.tx.sequential_unroll, c, n, d, q, ignore_pins=ip_obj)
            got = cg.tx.sequential_unroll(c, n, d, q, ignore_pins=ip_obj, add_flop_outputs=case["add_flop_outputs"],
                                          initial_values=iv_obj, remove_unloaded=case["remove_unloaded"])
        except ValueError:
            ctx.stats["steps"] += 1
            return True
        except Exception as e:
            ctx.violate("C09.sequential_raises", f"sequential_unroll raised {type(e).__name__}: {e}", sigx)
            return True
        gs = ref.snapshot(got[0])
        ctx.violate("C09.second_output_dropped", f"logic reads {extra_used[0]} but sequential_unroll returned a circuit "
                    f"(ill-formed: {ref.wiring_violations(gs, undriven=True)[:2]})", sigx)
        return True
    ip_iter = bool(case.get("ignore_iter")) and isinstance(ip_obj, list) and len(ip_obj) >= 1
    if ip_iter:
        # the ignored pins handed over as a one-shot iterable
        ctx.probe("ignore_pins_as_iterator")
        ip_obj = iter(list(ip_obj))
        ctx.twice = ctx.stale = False
        sig["ignore_as"] = "iterator"
    repeat_first = bool(case.get("repeat_first")) and not ip_iter
    if repeat_first:
        # history: an earlier call (shallower unrolling) made with the very same argument objects, as in a
        # deepening loop `for n in 1..N: sequential_unroll(c, n, ..., initial_values=my_dict)`
        ctx.call("C09.sequential_raises", dict(sig, repeat=True), cg.tx.sequential_unroll, c, max(1, n - 1), d, q,
                 ignore_pins=ip_obj, add_flop_outputs=case["add_flop_outputs"], initial_values=iv_obj,
                 remove_unloaded=case["remove_unloaded"])
        ctx.probe("repeated_call_same_objects")
        sig["repeat"] = True
    res = ctx.call("C09.sequential_raises", sig, cg.tx.sequential_unroll, c, n, d, q, ignore_pins=ip_obj,
                   add_flop_outputs=case["add_flop_outputs"], initial_values=iv_obj,
                   remove_unloaded=case["remove_unloaded"])
    uc, io_map = res
    us = ref.snapshot(uc)
    ctx.log("sequential", state_digest(uc), sorted((k, v) for k, v in io_map.items()))
    if ref.snapshot(c) != before:
        ctx.violate("C09.mutated_arg", "sequential_unroll changed its argument", sig)
    if ref.is_cyclic(us) or ref.wiring_violations(us) or us["bbs"]:
        ctx.violate("C09.illegal", f"unrolled circuit ill-formed: {ref.wiring_violations(us)[:3]} bbs={list(us['bbs'])}", sig)
    dn = {inst: f"{inst}_{d}" for inst in insts}
    qn = {inst: f"{inst}_{q}" for inst in insts}
    want_keys = set(kept_in) | set(outs) | set(dn.values()) | set(qn.values())
    if set(io_map) != want_keys or any(len(v) != n for v in io_map.values()):
        ctx.violate("C09.io_map", f"io_map keys {sorted(io_map)} != expected {sorted(want_keys)} (or wrong lengths)", sig)
    import re as _re
    for nm in us["nodes"]:
        # the node of the stepped circuit this node is a copy of: io are called <io>_cg_unroll_<t>, the rest unrolled_<t>_<node>
        m_ = _re.fullmatch(r"(.*)_cg_unroll_\d+", nm) or _re.fullmatch(r"unrolled_\d+_(.*)", nm)
        base = m_.group(1) if m_ else nm
        m_ = _re.fullmatch(r"(.*)_cg_unroll_\d+", base) or _re.fullmatch(r"unrolled_\d+_(.*)", base)
        base = m_.group(1) if m_ else base
        for inst in insts:
            for p in pin_in + pin_out:
                if p not in (d, q) and f"{inst}_{p}" in nodes:
                    continue     # an ordinary net of the circuit that happens to be called <flop>_<pin>
                if p not in (d, q) and base in (f"{inst}_{p}", f"{inst}.{p}"):
                    ctx.violate("C09.pins_left", f"a non-data pin survived: node {nm}", sig)
    free_names = [io_map[qn[inst]][0] for inst in free_state] + [io_map[i][t] for t in range(n) for i in kept_in]
    if sorted(ref.inputs(us)) != sorted(free_names):
        ctx.violate("C09.free_inputs", f"inputs of the unrolled circuit {sorted(ref.inputs(us))} != free step-0 state + per-step "
                    f"inputs {sorted(free_names)}", sig)
    if sorted(ref.free_nodes(us)) != sorted(free_names):
        ctx.violate("C09.free_inputs", f"free signals {sorted(ref.free_nodes(us))} != {sorted(free_names)}", sig)
    for inst in insts:
        if init[inst] is not None:
            t0 = us["nodes"][io_map[qn[inst]][0]][0]
            if t0 != init[inst]:
                ctx.violate("C09.initial_value", f"step-0 state of {inst} has type {t0}, expected constant {init[inst]}", sig)
    for inst in insts:
        for t in range(n):
            if bool(us["nodes"][io_map[dn[inst]][t]][2]) != bool(case["add_flop_outputs"]):
                ctx.violate("C09.flop_outputs", f"{io_map[dn[inst]][t]} output mark is {us['nodes'][io_map[dn[inst]][t]][2]} with "
                            f"add_flop_outputs={case['add_flop_outputs']}", sig)
    want_out = {io_map[o][t] for o in outs for t in range(n)}
    if case["add_flop_outputs"]:
        want_out |= {io_map[dn[i]][t] for i in insts for t in range(n)}
    if set(ref.outputs(us)) != want_out:
        ctx.violate("C09.outputs", f"outputs {ref.outputs(us)} != {sorted(want_out)}", sig)
    K = len(free_names)
    vt = ref.var_tts(K)
    full = (1 << (1 << K)) - 1
    pos = {nm: i for i, nm in enumerate(free_names)}
    tu, _, _ = ref.truth_tables(us, free_names)
    state = {}
    for inst in insts:
        if init[inst] is None:
            state[inst] = vt[pos[io_map[qn[inst]][0]]]
        else:
            state[inst] = full if init[inst] == "1" else 0
    dep = False
    for t in range(n):
        fixed = {f"{inst}.{q}": state[inst] for inst in insts}
        for inst in insts:
            for p in pin_out:
                if p != q:
                    fixed[f"{inst}.{p}"] = 0      # an output pin nothing reads (a read one was refused above)
        for i in ins:
            fixed[i] = vt[pos[io_map[i][t]]] if i in kept_in else 0
        tc, _, _ = ref.truth_tables(net, [], fixed=fixed, k=K)
        ctx.stats["cycles"] += 1
        for o in outs:
            if tu[io_map[o][t]] != tc[o]:
                ctx.violate("C09.sequential_value", f"cycle {t}: io_map[{o}][{t}] differs from cycle-accurate simulation, e.g. "
                            f"under {ref.witness(tu[io_map[o][t]], tc[o], free_names)}", sig)
        for inst in insts:
            dv = tc[f"{inst}.{d}"]
            if tu[io_map[dn[inst]][t]] != dv:
                ctx.violate("C09.sequential_d", f"cycle {t}: D of {inst} differs from simulation", sig)
            if tu[io_map[qn[inst]][t]] != state[inst]:
                ctx.violate("C09.sequential_q", f"cycle {t}: Q of {inst} differs from simulation (state handed over wrongly)", sig)
        state = {inst: tc[f"{inst}.{d}"] for inst in insts}
        if t == n - 1 and n > 1:
            dep = True
    if dep:
        ctx.stats["nontrivial"] += 1
    ctx.stats["steps"] += 1


def sig_key(sig):
    return (sig.get("kind"), sig.get("exc"), sig.get("k_is_input"), sig.get("iv"), sig.get("repeat"))


def shrink(case):
    if case["n"] > 1:
        yield dict(case, n=case["n"] - 1)
        yield dict(case, n=1)
    if case["kind"] == "unroll":
        for k in list(case["state_io"]):
            yield dict(case, state_io={a: b for a, b in case["state_io"].items() if a != k})
        for net in G.shrink_net(case["net"]):
            if net is None or not ref.is_lint_clean(net) or ref.is_cyclic(net):
                continue
            ins, outs = ref.inputs(net), ref.outputs(net)
            sio = {k: v for k, v in case["state_io"].items() if k in outs and v in ins}
            yield dict(case, net=net, state_io=sio)
        return
    for key, val in (("ignore_iter", False), ("ignore_pins", None), ("add_flop_outputs", False), ("initial_values", None), ("remove_unloaded", False),
                     ("repeat_first", False)):
        if case[key] != val:
            yield dict(case, **{key: val})
    for net in G.shrink_net(case["net"]):
        if net is None or ref.wiring_violations(net, undriven=True) or ref.is_cyclic(net) or not net["bbs"]:
            continue
        iv = case["initial_values"]
        if isinstance(iv, dict):
            iv = {k: v for k, v in iv.items() if k in net["bbs"]}
        yield dict(case, net=net, initial_values=iv)


def fingerprint(case, r):
    if r["stats"].get("nontrivial"):
        cfg = {k: v for k, v in case.items() if k not in ("net", "peer")}
        return fp([ref.canon(case["net"]), cfg])
    return None


def sample(case, r):
    return {k: v for k, v in case.items() if k != "peer"}
