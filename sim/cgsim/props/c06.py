"""C06 - hierarchical composition is functional substitution.

Workload: a history on one parent circuit interleaving add_blackbox / add_subcircuit /
fill_blackbox (any order, same child several times, nested blackboxes, ~20% invalid calls), further
parent logic consuming spliced nets, and a final strip_blackboxes.  Oracle: a reference that
performs the substitution on plain dicts; after every successful call all nodes of the reference
must exist in the real circuit with the same FUNCTION of the free signals, and io lists, registry
and pin nodes must match."""
import copy

from cgsim import gen as G, ref
from cgsim.core import fp, Skip, state_digest

ID = "C06"
QUICK = dict(worlds=16, runs=500, seconds=15)
THOROUGH = dict(worlds=256, runs=4000, seconds=30)
RULE = ("seeded composition histories (<= 8 composition calls) on a generated parent with 1-3 generated children; "
        "distinct = parent + children + op list; non-trivial = at least two successful composition calls and one "
        "spliced node whose function depends on a parent signal")
PROBES = ["fill_after_second_add_blackbox", "same_child_twice", "nested_bb_carried", "child_fed_by_child",
          "rejected_call", "ignore_pins_as_iterator", "strip_with_ignore", "strip_plain", "fill_ok", "add_subcircuit_ok", "add_blackbox_ok",
          "unattached_child_input", "feedthrough_child", "same_connection_map_object_reused"]
ASSUMPTIONS = ["<= 10 free signals at any time; histories creating a combinational loop are cut at that point",
               "a child node that is both input and output (feed-through pin) is attached as an INPUT when named in the "
               "connection map, as the statement says for sc's inputs"]
TIME_UNIT = "API calls"


class Invalid(Exception):
    pass


def _legal_driver(R, x):
    return x in R["nodes"] and R["nodes"][x][0] != "bb_input"


def _can_drive(R, x, target_type):
    if not _legal_driver(R, x):
        return False
    if R["nodes"][x][0] == "bb_output":
        if target_type != "buf":
            return False
        if any(x in v[1] for v in R["nodes"].values()):
            return False
    return True


def _can_be_driven(R, y):
    if y not in R["nodes"]:
        return False
    t, fi, o = R["nodes"][y]
    if t in ("input", "0", "1", "x", "bb_output"):
        return False
    if t in ("buf", "not", "bb_input") and fi:
        return False
    return True


def child_io(child):
    return ref.inputs(child), ref.outputs(child)


def ref_add_subcircuit(R, child, name, conns):
    R = copy.deepcopy(R)
    ins, outs = child_io(child)
    for b in child["bbs"]:
        if f"{name}_{b}" in R["bbs"]:
            raise Invalid("bb clash")
    for n in child["nodes"]:
        if f"{name}_{n}" in R["nodes"]:
            raise Invalid("name clash")
    for k in (conns or {}):
        if k not in ins and k not in outs:
            raise Invalid("bad key")
    for n, (t, fi, o) in child["nodes"].items():
        R["nodes"][f"{name}_{n}"] = ["buf" if t == "input" else t, [f"{name}_{f}" for f in fi], False]
    for b, v in child["bbs"].items():
        R["bbs"][f"{name}_{b}"] = copy.deepcopy(v)
    for k, x in (conns or {}).items():
        if k in ins:
            tgt = f"{name}_{k}"
            if not _can_drive(R, x, "buf") or not _can_be_driven(R, tgt):
                raise Invalid("illegal input connection")
            R["nodes"][tgt][1] = [x]
        else:
            src = f"{name}_{k}"
            for x1 in ([x] if isinstance(x, str) else list(x)):     # one net or a list of nets
                if not _can_be_driven(R, x1) or x1 == src:
                    raise Invalid("illegal output connection")
                if not _can_drive(R, src, R["nodes"][x1][0]):
                    raise Invalid("illegal output connection")
                if src in R["nodes"][x1][1]:
                    raise Invalid("dup")
                R["nodes"][x1][1] = R["nodes"][x1][1] + [src]
    return R


def ref_add_blackbox(R, bbt, inst, conns):
    tname, ins, outs = bbt
    R = copy.deepcopy(R)
    if set(ins) & set(outs):
        raise Invalid("pin listed as input and output")
    if inst in R["bbs"]:
        raise Invalid("instance exists")
    for p in ins + outs:
        if f"{inst}.{p}" in R["nodes"]:
            raise Invalid("pin name taken")
    for k in (conns or {}):
        if k not in ins and k not in outs:
            raise Invalid("bad key")
    R["bbs"][inst] = [tname, sorted(ins), sorted(outs)]
    for p in ins:
        R["nodes"][f"{inst}.{p}"] = ["bb_input", [], False]
    for p in outs:
        R["nodes"][f"{inst}.{p}"] = ["bb_output", [], False]
    for k, x in (conns or {}).items():
        if k in ins:
            if not _can_drive(R, x, "bb_input"):
                raise Invalid("illegal pin driver")
            if R["nodes"][f"{inst}.{k}"][1]:
                raise Invalid("dup")
            R["nodes"][f"{inst}.{k}"][1] = [x]
        else:
            if x not in R["nodes"] or R["nodes"][x][0] != "buf" or R["nodes"][x][1]:
                raise Invalid("bb output must drive an undriven buf")
            if any(f"{inst}.{k}" in v[1] for v in R["nodes"].values()):
                raise Invalid("bb output already loaded")
            R["nodes"][x][1] = [f"{inst}.{k}"]
    return R


def ref_fill(R, inst, child):
    R = copy.deepcopy(R)
    if inst not in R["bbs"]:
        raise Invalid("no such instance")
    tname, ins, outs = R["bbs"][inst]
    cins, couts = child_io(child)
    if sorted(cins) != sorted(ins) or sorted(couts) != sorted(outs):
        raise Invalid("io mismatch")
    for b in child["bbs"]:
        if f"{inst}_{b}" in R["bbs"]:
            raise Invalid("bb clash")
    for n in child["nodes"]:
        if f"{inst}_{n}" in R["nodes"]:
            raise Invalid("name clash")
    ren = {f"{inst}.{p}": f"{inst}_{p}" for p in ins + outs}
    new_nodes = {}
    for n, (t, fi, o) in R["nodes"].items():
        new_nodes[ren.get(n, n)] = [t, [ren.get(f, f) for f in fi], o]
    R["nodes"] = new_nodes
    for n, (t, fi, o) in child["nodes"].items():
        m = f"{inst}_{n}"
        cfi = [f"{inst}_{f}" for f in fi]
        if m in R["nodes"]:       # merges with a former pin
            old = R["nodes"][m]
            if t == "input":
                R["nodes"][m] = ["buf", old[1], False]
            else:
                R["nodes"][m] = [t, cfi, False]
        else:
            R["nodes"][m] = ["buf" if t == "input" else t, cfi, False]
    del R["bbs"][inst]
    for b, v in child["bbs"].items():
        R["bbs"][f"{inst}_{b}"] = copy.deepcopy(v)
    return R


def ref_strip(R, ignore):
    out = {"name": R["name"], "nodes": {}, "bbs": {}}
    ren = {}
    gone = set()
    for n, (t, fi, o) in R["nodes"].items():
        if t in ("bb_input", "bb_output"):
            if n.split(".")[-1] in ignore:
                gone.add(n)
            else:
                ren[n] = n.replace(".", "_")
    for n, (t, fi, o) in R["nodes"].items():
        if n in gone:
            continue
        fi2 = [ren.get(f, f) for f in fi if f not in gone]
        if t == "bb_input":
            out["nodes"][ren[n]] = ["buf", fi2, True]
        elif t == "bb_output":
            out["nodes"][ren[n]] = ["input", [], o]
        else:
            out["nodes"][n] = [t, fi2, o]
    if len(out["nodes"]) != len(R["nodes"]) - len(gone):
        raise Invalid("overlapping names")
    return out


PIN_FAMILIES = [("se", "reset", "d", "q", "qn"), ("d", "rd", "d0", "d01", "q"), ("en", "clk_en", "clk", "q", "q_n"),
                ("a", "a1", "ba", "y", "y_b"), ("i", "si", "in", "o", "so"),
                # with instances `u` and `u_n1` both in the name pool: u.n1_q and u_n1.q both want the io name u_n1_q
                ("n1_q", "q", "n1_d", "d", "n1_y"), ("q", "n1_q", "d", "n1_d", "y")]


def gen_child(rng, idx, allow_nested):
    net = G.gen_net(rng, n_inputs=(1, 3), n_gates=(1, 5), types=G.swarm_types(rng), max_arity=3, constants=0.15,
                    bbs=(1, 2) if (allow_nested and rng.random() < 0.35) else 0, input_outputs=0.0, min_outputs=1,
                    name_style="plain", name=f"child{idx}", bb_types=[("leaf", ["p"], ["z"])])
    # outputs are gates (a feed-through pin may be added below)
    for n, v in net["nodes"].items():
        if v[0] in ("input", "0", "1") and v[2]:
            v[2] = False
    if not ref.outputs(net):
        gates = [n for n, v in net["nodes"].items() if v[0] in ref.GATES]
        net["nodes"][gates[-1]][2] = True
    if rng.random() < 0.2:
        # a feed-through pin: a child input that is also marked as output (only instantiated with add_subcircuit,
        # because a blackbox type cannot have one pin in both directions)
        i = rng.choice(ref.inputs(net))
        net["nodes"][i][2] = True
    # rename to short stable names so prefixed names are readable
    mp = {}
    i = 0
    for n in net["nodes"]:
        if "." not in n:
            mp[n] = f"{'i' if net['nodes'][n][0] == 'input' else 'n'}{i}"
            i += 1
    inst_map = {inst: f"k{j}" for j, inst in enumerate(net["bbs"])}
    if rng.random() < 0.35:
        # pin-name families as cell libraries have them: one pin name is contained in another (d/rd/d0, se/reset,
        # q/qn, en/clk_en), so matching a pin by anything weaker than equality picks up a neighbour
        fam = list(rng.choice(PIN_FAMILIES))
        rng.shuffle(fam)
        io = [n for n in net["nodes"] if "." not in n and (net["nodes"][n][0] == "input" or net["nodes"][n][2])]
        rng.shuffle(io)
        for n, p in zip(io, fam):
            mp[n] = p
    net = G.rename(net, mp)
    if inst_map:
        nodes = {}
        for n, (t, fi, o) in net["nodes"].items():
            def rn(x):
                if "." in x and x.split(".")[0] in inst_map:
                    return inst_map[x.split(".")[0]] + "." + x.split(".", 1)[1]
                return x
            nodes[rn(n)] = [t, [rn(f) for f in fi], o]
        net = {"name": net["name"], "nodes": nodes, "bbs": {inst_map[k]: v for k, v in net["bbs"].items()}}
    return net


def gen(rng, tier):
    parent = G.gen_net(rng, n_inputs=(1, 4), n_gates=(1, 6), types=G.swarm_types(rng), max_arity=3, constants=0.2,
                       name_style="plain", name="parent")
    mp = {n: f"p{i}" for i, n in enumerate(parent["nodes"])}
    if rng.random() < 0.3:
        # parent nets that merely share a prefix with an instance name used later (u_en next to instance u)
        pio = [n for n, v in parent["nodes"].items() if v[0] == "input" or v[2]]
        for n in rng.sample(pio, min(len(pio), rng.randint(1, 2))):
            new = f"{rng.choice(('u', 'v', 'w', 'm'))}_{rng.choice(('en', 'ok', 'sel', 'rdy'))}"
            if new not in mp.values():
                mp[n] = new
    parent = G.rename(parent, mp)
    children = [gen_child(rng, i, allow_nested=True) for i in range(rng.randint(1, 3))]
    R = copy.deepcopy(parent)
    ops = []
    insts = ["u", "v", "w", "u_n1", "m"]
    cnt = 0
    last_sub = None
    n_comp = rng.randint(2, 8)
    for _ in range(n_comp * 2):
        if sum(1 for o in ops if o[0] in ("add_blackbox", "add_subcircuit", "fill_blackbox")) >= n_comp:
            break
        drivers = [n for n, v in R["nodes"].items() if v[0] != "bb_input" and v[0] != "bb_output"]
        r = rng.random()
        op = None
        invalid = rng.random() < 0.2
        if r < 0.3:   # add_blackbox
            plain = [i for i, ch in enumerate(children) if not (set(ref.inputs(ch)) & set(ref.outputs(ch)))]
            if not plain:
                continue
            ci = rng.choice(plain)
            ins, outs = child_io(children[ci])
            inst = rng.choice(insts)
            if not invalid:
                free_insts = [i for i in insts if i not in R["bbs"] and not any(n.startswith(i + "_") or n.startswith(i + ".") for n in R["nodes"])]
                if not free_insts:
                    continue
                inst = rng.choice(free_insts)
            conns = {}
            pre = []
            for p in ins:
                if rng.random() < 0.9 and drivers:
                    conns[p] = rng.choice(drivers)
            for p in outs:
                if rng.random() < 0.85:
                    cnt += 1
                    b = f"b{cnt}"
                    pre.append(["add", b, "buf", []])
                    conns[p] = b
            if invalid:
                kind = rng.choice(("badkey", "badnet", "badnet_out", "dupinst"))
                if kind == "badkey":
                    conns["nopin"] = rng.choice(drivers) if drivers else "p0"
                elif kind == "badnet":
                    conns[rng.choice(ins)] = "missing_net"
                elif kind == "badnet_out" and outs:
                    p = rng.choice(outs)
                    conns.pop(p, None)
                    conns[p] = "missing_net"
            for po in pre:
                ops.append(po)
                R["nodes"][po[1]] = ["buf", [], False]
            op = ["add_blackbox", ci, inst, conns]
        elif r < 0.6:  # add_subcircuit
            ci = rng.randrange(len(children))
            ins, outs = child_io(children[ci])
            inst = rng.choice(insts)
            if not invalid:
                # (only the names the composition creates must be free: a parent net called <inst>_en is an ordinary net)
                free_insts = [i for i in insts if not any(f"{i}_{n}" in R["nodes"] for n in children[ci]["nodes"]) and
                              not any(f"{i}_{b}" in R["bbs"] for b in children[ci]["bbs"]) and
                              not any(n.startswith(i + "_") and R["nodes"][n][0] in ("bb_input", "bb_output") for n in R["nodes"])]
                if not free_insts:
                    continue
                inst = rng.choice(free_insts)
            conns = {}
            pre = []
            for p in ins:
                if rng.random() < 0.92 and drivers:
                    conns[p] = rng.choice(drivers)
            for p in outs:
                if rng.random() < 0.8:
                    cnt += 1
                    b = f"b{cnt}"
                    pre.append(["add", b, "buf", []])
                    conns[p] = b
                    if p not in ins and rng.random() < 0.25:
                        # an output fanning out to several parent nets: the connection value is a list
                        cnt += 1
                        pre.append(["add", f"b{cnt}", "buf", []])
                        conns[p] = [b, f"b{cnt}"]
            if invalid:
                kind = rng.choice(("badkey", "badnet", "badnet_out"))
                if kind == "badkey":
                    conns["nokey"] = rng.choice(drivers) if drivers else "p0"
                elif kind == "badnet_out" and outs:
                    # a typo in the net an OUTPUT is attached to, listed after connections that are fine
                    p = rng.choice(outs)
                    conns.pop(p, None)
                    conns[p] = "missing_net"
                else:
                    conns[rng.choice(ins)] = "missing_net"
            if rng.random() < 0.3:
                items = list(conns.items())
                rng.shuffle(items)
                conns = dict(items)
            if last_sub is not None and not invalid and rng.random() < 0.3:
                # repeated instantiation with the SAME connection map (the run passes the same dict object again)
                ci, conns = last_sub[0], dict(last_sub[1])
                pre = []
            elif not invalid and rng.random() < 0.3:
                ins_only = {k: v for k, v in conns.items() if k in ins}
                if ins_only:
                    conns = ins_only
                    pre = []
                    last_sub = (ci, dict(conns))
            for po in pre:
                ops.append(po)
                R["nodes"][po[1]] = ["buf", [], False]
            op = ["add_subcircuit", ci, inst, conns]
        elif r < 0.85:  # fill
            if R["bbs"] and not invalid:
                cands = []
                for inst, (tname, ins, outs) in R["bbs"].items():
                    for ci, ch in enumerate(children):
                        if tname == f"T{ci}":
                            cands.append((inst, ci))
                if not cands:
                    continue
                inst, ci = rng.choice(cands)
            else:
                inst = rng.choice(list(R["bbs"]) + insts)
                ci = rng.randrange(len(children))
            op = ["fill_blackbox", inst, ci]
        else:  # more parent logic consuming whatever exists
            if not drivers:
                continue
            cnt += 1
            t = rng.choice(["and", "or", "xor", "nand", "nor", "xnor", "not", "buf"])
            k = 1 if t in ("buf", "not") else rng.randint(1, min(3, len(drivers)))
            op = ["add", f"g{cnt}", t, rng.sample(drivers, k), rng.random() < 0.5]
        # track on the reference
        try:
            if op[0] == "add_blackbox":
                ins, outs = child_io(children[op[1]])
                R = ref_add_blackbox(R, [f"T{op[1]}", ins, outs], op[2], op[3])
            elif op[0] == "add_subcircuit":
                R = ref_add_subcircuit(R, children[op[1]], op[2], op[3])
            elif op[0] == "fill_blackbox":
                R = ref_fill(R, op[1], children[op[2]])
            elif op[0] == "add":
                R["nodes"][op[1]] = [op[2], list(op[3]), bool(op[4]) if len(op) > 4 else False]
        except Invalid:
            pass
        ops.append(op)
    ign = []
    if rng.random() < 0.5:
        pins = sorted({n.split(".")[-1] for n, v in R["nodes"].items() if v[0] in ("bb_input", "bb_output")})
        if pins:
            ign = rng.sample(pins, rng.randint(1, len(pins)))
    ops.append(["strip_blackboxes", ign if len(ign) != 1 or rng.random() < 0.5 else ign[0]])
    if len(ign) >= 2 and rng.random() < 0.3:
        ops[-1].append("iter")      # the ignored pins handed over as a one-shot iterable
    return {"parent": parent, "children": children, "ops": ops, "peer": {"seed": rng.getrandbits(32)}}


def compare(ctx, real, R, step, op, sig):
    rs = ref.snapshot(real)
    if ref.is_cyclic(R):
        raise Skip("history created a combinational loop")
    if ref.inputs(rs) != ref.inputs(R):
        ctx.violate("C06.inputs", f"step {step} {op}: inputs {ref.inputs(rs)} != expected {ref.inputs(R)}", sig)
    if ref.outputs(rs) != ref.outputs(R):
        ctx.violate("C06.outputs", f"step {step} {op}: outputs {ref.outputs(rs)} != expected {ref.outputs(R)}", sig)
    if {k: (v[0], sorted(v[1]), sorted(v[2])) for k, v in rs["bbs"].items()} != \
            {k: (v[0], sorted(v[1]), sorted(v[2])) for k, v in R["bbs"].items()}:
        ctx.violate("C06.registry", f"step {step} {op}: registry {sorted(rs['bbs'])} != expected {sorted(R['bbs'])}", sig)
    pins_r = sorted(n for n, v in rs["nodes"].items() if v[0] in ("bb_input", "bb_output") or "." in n)
    pins_e = sorted(n for n, v in R["nodes"].items() if v[0] in ("bb_input", "bb_output") or "." in n)
    if pins_r != pins_e:
        ctx.violate("C06.pins", f"step {step} {op}: pin nodes {pins_r} != expected {pins_e}", sig)
    missing = sorted(set(R["nodes"]) - set(rs["nodes"]))
    if missing:
        ctx.violate("C06.missing_nodes", f"step {step} {op}: nodes {missing} are missing", sig)
    if ref.is_cyclic(rs):
        ctx.violate("C06.cyclic", f"step {step} {op}: result is cyclic but the reference is not", sig)
    free = ref.free_nodes(R)
    if sorted(ref.free_nodes(rs)) != free:
        ctx.violate("C06.free", f"step {step} {op}: free signals {sorted(ref.free_nodes(rs))} != expected {free}", sig)
    if len(free) > 10:
        raise Skip("too many free signals")
    te, _, _ = ref.truth_tables(R, free)
    tr, _, _ = ref.truth_tables(rs, free)
    for n in ref.topo_order(R):
        if te[n] != tr[n]:
            w = ref.witness(te[n], tr[n], free)
            ctx.violate("C06.function", f"step {step} {op}: node {n} has the wrong function, e.g. under {w}: "
                        f"expected {(te[n] >> sum(v << i for i, v in enumerate(w.values()))) & 1}", sig)
    for n, (t, fi, o) in R["nodes"].items():
        if t in ("bb_input", "bb_output") and sorted(rs["nodes"][n][1]) != sorted(fi):
            ctx.violate("C06.pin_net", f"step {step} {op}: pin {n} attached to {rs['nodes'][n][1]}, expected {fi}", sig)
    return rs


def run(case, ctx):
    cg = ctx.cg
    parent = case["parent"]
    children = case["children"]
    if not ref.is_lint_clean(parent) or ref.is_cyclic(parent):
        raise Skip("precondition")
    for ch in children:
        if not ref.is_lint_clean(ch) or ref.is_cyclic(ch):
            raise Skip("precondition child")
    c = ref.build(cg, parent)
    kids = [ref.build(cg, ch) for ch in children]
    bbts = []
    for i, ch in enumerate(children):
        ins, outs = child_io(ch)
        if set(ins) & set(outs):
            ctx.probe("feedthrough_child")
        bbts.append((cg.BlackBox(f"T{i}", ins, outs), [f"T{i}", ins, outs]))
    R = copy.deepcopy(parent)
    n_ok = 0
    interned = {}        # connection maps with equal content are passed as the SAME dict object, like a caller
                         # that builds its map once and instantiates several times
    used_children = []
    n_add_bb = 0
    spliced_dep = False
    for step, op in enumerate(case["ops"]):
        k = op[0]
        sig = {"op": k}
        ctx.stats["calls"] += 1
        exc = None
        expect = None
        try:
            if k == "add":
                expect = copy.deepcopy(R)
                if op[1] in R["nodes"] or any(f not in R["nodes"] or R["nodes"][f][0] in ("bb_input", "bb_output") for f in op[3]):
                    raise Invalid("add")
                expect["nodes"][op[1]] = [op[2], list(op[3]), bool(op[4]) if len(op) > 4 else False]
            elif k == "add_blackbox":
                expect = ref_add_blackbox(R, bbts[op[1]][1], op[2], op[3])
            elif k == "add_subcircuit":
                expect = ref_add_subcircuit(R, children[op[1]], op[2], op[3])
            elif k == "fill_blackbox":
                expect = ref_fill(R, op[1], children[op[2]])
            elif k == "strip_blackboxes":
                ign = [op[1]] if isinstance(op[1], str) else list(op[1])
                expect = ref_strip(R, ign)
        except Invalid as e:
            expect = None
            sig["invalid"] = str(e)
        kid_before = [ref.snapshot(x) for x in kids]
        try:
            if k == "add":
                c.add(op[1], op[2], fanin=list(op[3]), output=bool(op[4]) if len(op) > 4 else False)
            elif k == "add_blackbox":
                c.add_blackbox(bbts[op[1]][0], op[2], dict(op[3]))
            elif k == "add_subcircuit":
                import json as _json
                key = _json.dumps([op[1], op[3]], sort_keys=True)
                if key in interned:
                    ctx.probe("same_connection_map_object_reused")
                    sig["map_reused"] = True
                c.add_subcircuit(kids[op[1]], op[2], interned.setdefault(key, dict(op[3])))
            elif k == "fill_blackbox":
                c.fill_blackbox(op[1], kids[op[2]])
            elif k == "strip_blackboxes":
                before_strip = ref.snapshot(c)
                if len(op) > 2 and op[2] == "iter":
                    ctx.probe("ignore_pins_as_iterator")
                    res = cg.tx.strip_blackboxes(c, ignore_pins=iter(list(op[1])))
                else:
                    res = cg.tx.strip_blackboxes(c, ignore_pins=op[1] if op[1] else None)
        except Exception as e:
            exc = e
        ctx.log(step, k, "ok" if exc is None else type(exc).__name__, state_digest(c))
        if [ref.snapshot(x) for x in kids] != kid_before:
            ctx.violate("C06.child_mutated", f"step {step} {op}: the child circuit passed in was modified", sig)
        if expect is None:
            # invalid by the reference: the library may reject (expected) or accept; either way adopt
            # whatever state it left (legality of that state is C07's business, not C06's)
            ctx.probe("rejected_call" if exc is not None else "invalid_call_accepted")
            if k == "strip_blackboxes":
                if exc is None:
                    # two pins want the same io name: the library cannot deliver what the statement asks for, but it must
                    # not hand back a circuit in which pins were silently merged
                    rs0 = ref.snapshot(res)
                    n_pins_kept = sum(1 for n, v in R["nodes"].items() if v[0] in ("bb_input", "bb_output")
                                      and n.split(".")[-1] not in (op[1] if isinstance(op[1], list) else [op[1]] if op[1] else []))
                    n_other = sum(1 for v in R["nodes"].values() if v[0] not in ("bb_input", "bb_output"))
                    if len(rs0["nodes"]) != n_other + n_pins_kept or ref.wiring_violations(rs0, undriven=False):
                        ctx.violate("C06.strip_merged", f"step {step} {op}: pins with colliding io names were merged silently: "
                                    f"{len(rs0['nodes'])} nodes for {n_other} nodes + {n_pins_kept} pins; "
                                    f"{ref.wiring_violations(rs0, undriven=False)[:2]}", dict(sig, merged=True))
                return
            R_before = R
            R = ref.snapshot(c)
            R = {"name": R["name"], "nodes": R["nodes"], "bbs": R["bbs"]}
            if exc is not None and k in ("add_subcircuit", "fill_blackbox", "add_blackbox"):
                # "every pre-existing node keeps its function" also when the composition is refused: a refused call
                # may not rewire, retype or (un)mark the nodes that were there before (what it leaves behind
                # besides is C07's clause)
                changed = sorted(n for n, v in R_before["nodes"].items()
                                 if n in R["nodes"] and (R["nodes"][n][0] != v[0] or sorted(R["nodes"][n][1]) != sorted(v[1])
                                                         or bool(R["nodes"][n][2]) != bool(v[2])))
                gone = sorted(n for n in R_before["nodes"] if n not in R["nodes"])
                if k == "fill_blackbox":
                    # the pins of the instance being filled are the call's own business
                    changed = [n for n in changed if not n.startswith(op[1] + ".")]
                    gone = [n for n in gone if not n.startswith(op[1] + ".")]
                if changed or gone:
                    ctx.violate("C06.refused_changed_preexisting", f"step {step} {op}: refused with {type(exc).__name__} but "
                                f"pre-existing nodes changed {changed[:3]} / disappeared {gone[:3]}", dict(sig, refused=True))
            if ref.wiring_violations(R, undriven=False) or ref.is_cyclic(R) or \
                    any(v[0] in ref.GATES and v[0] not in ("buf", "not") and not v[1] for v in R["nodes"].values()):
                raise Skip("state after an invalid call is outside the oracle's bounds")
            continue
        if exc is not None:
            ctx.violate("C06.rejected_valid", f"step {step} {op}: valid call raised {type(exc).__name__}: {exc}",
                        dict(sig, exc=type(exc).__name__))
        if k == "strip_blackboxes":
            if ref.snapshot(c) != before_strip:
                ctx.violate("C06.strip_mutated_arg", "strip_blackboxes changed its argument", sig)
            ctx.probe("strip_with_ignore" if op[1] else "strip_plain")
            compare(ctx, res, expect, step, op, sig)
            if res.blackboxes:
                ctx.violate("C06.strip_registry", "strip_blackboxes left registry entries", sig)
            continue
        rs = compare(ctx, c, expect, step, op, sig)
        R = expect
        if k in ("add_blackbox", "add_subcircuit", "fill_blackbox"):
            n_ok += 1
            ctx.probe(f"{k}_ok" if k != "fill_blackbox" else "fill_ok")
            if k == "add_blackbox":
                n_add_bb += 1
            if k == "fill_blackbox" and n_add_bb >= 2:
                ctx.probe("fill_after_second_add_blackbox")
            if k in ("add_subcircuit", "fill_blackbox"):
                ci = op[1] if k == "add_subcircuit" else op[2]
                inst = op[2] if k == "add_subcircuit" else op[1]
                if ci in used_children:
                    ctx.probe("same_child_twice")
                used_children.append(ci)
                if children[ci]["bbs"]:
                    ctx.probe("nested_bb_carried")
                free = ref.free_nodes(R)
                tt, _, full = ref.truth_tables(R, free)
                if any(tt[f"{inst}_{n}"] not in (0, full) for n in children[ci]["nodes"] if f"{inst}_{n}" in tt):
                    spliced_dep = True
                if k == "add_subcircuit":
                    ins, _ = child_io(children[ci])
                    if any(p not in op[3] for p in ins):
                        ctx.probe("unattached_child_input")
                    prefixes = [o[2] + "_" for o in case["ops"][:step] if o[0] == "add_subcircuit"] + \
                               [o[1] + "_" for o in case["ops"][:step] if o[0] == "fill_blackbox"]
                    for p, x in op[3].items():
                        if p in ins:
                            cone = ref.transitive_fanin(R, [x]) | {x}
                            if any(any(z.startswith(pre) for pre in prefixes) for z in cone):
                                ctx.probe("child_fed_by_child")
    if n_ok >= 2 and spliced_dep:
        ctx.stats["nontrivial"] += 1


def sig_key(sig):
    return (sig.get("op"), sig.get("exc"), sig.get("map_reused"))


def shrink(case):
    ops = case["ops"]
    n = len(ops)
    chunk = n // 2
    while chunk >= 1:
        for i in range(0, n, chunk):
            o2 = ops[:i] + ops[i + chunk:]
            if o2 and len(o2) < n:
                yield dict(case, ops=o2)
        chunk //= 2
    for ci, ch in enumerate(case["children"]):
        for net in G.shrink_net(ch):
            if net is None or not ref.is_lint_clean(net) or ref.is_cyclic(net) or not ref.outputs(net) or not ref.inputs(net):
                continue
            ins, outs = child_io(net)
            ops2 = []
            for op in ops:
                if op[0] in ("add_blackbox", "add_subcircuit") and op[1] == ci:
                    op = [op[0], op[1], op[2], {k: v for k, v in op[3].items() if k in ins or k in outs}]
                ops2.append(op)
            yield dict(case, children=case["children"][:ci] + [net] + case["children"][ci + 1:], ops=ops2)
    for net in G.shrink_net(case["parent"]):
        if net is not None and ref.is_lint_clean(net) and not ref.is_cyclic(net):
            yield dict(case, parent=net)
    for i, op in enumerate(ops):
        if op[0] in ("add_blackbox", "add_subcircuit"):
            for key in op[3]:
                yield dict(case, ops=ops[:i] + [[op[0], op[1], op[2], {k: v for k, v in op[3].items() if k != key}]] + ops[i + 1:])


def fingerprint(case, r):
    if r["stats"].get("nontrivial"):
        return fp([ref.canon(case["parent"]), [ref.canon(c) for c in case["children"]], case["ops"]])
    return None


def sample(case, r):
    return {"parent": case["parent"], "children": case["children"], "ops": case["ops"]}
