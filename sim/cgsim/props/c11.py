"""C11 - sensitivity analyses agree with their definitions.

Explores the solver's model choice (sensitize must return *a* witness whatever model arrives;
sensitivity walks down through UNSAT answers) and the hash world (enumerate(startpoints) fixes the
popcount wiring).  Oracle: the definitions evaluated on truth tables."""
from cgsim import gen as G, ref, peers
from cgsim.core import fp, Skip, state_digest

ID = "C11"
QUICK = dict(worlds=16, runs=150, seconds=15)
THOROUGH = dict(worlds=256, runs=1200, seconds=30)
RULE = ("seeded blackbox-free circuits x node n (input / internal / output / functionally constant) x endpoint "
        "subsets; distinct = canonical net + node + endpoints; non-trivial = n's function depends on >= 2 startpoints")
PROBES = ["sp=1", "sp=2", "sp=3", "sp=4", "sp=5", "sp=7", "sp=8", "sensitivity_0", "n_is_input", "n_is_output",
          "unsat_steps>=2", "sensitize_none", "sensitize_witness", "endpoints_subset", "influence", "sensitivity", "influence_list_form", "same_endpoints_object_for_all_calls", "selection_as_iterator", "node_reaches_no_endpoint"]
ASSUMPTIONS = ["<= 11 startpoints in the cone of n for the transforms and sensitivity(), <= 6 for influence / avg_sensitivity", "exact mode only (approx=False); the supergates=True variant of "
               "influence is not judged",
               "startpoints named like generated nodes (sat, c0_/c1_/dif_<n>, orig_, inv_, pc_, sen_out_, dif_out_) are avoided: the transforms refuse them with ValueError"]


def gen(rng, tier):
    big = rng.random() < 0.25
    huge = big and rng.random() < 0.25
    net = G.gen_net(rng, n_inputs=(9, 11) if huge else ((5, 8) if big else (1, 5)), n_gates=(2, 12), types=G.swarm_types(rng),
                    max_arity=rng.randint(2, 5) if not big else rng.randint(3, 8), constants=0.2,
                    name_style=rng.choice(("plain", "plain", "underscore")), input_outputs=rng.choice((0.1, 0.1, 0.3)), min_outputs=1,
                    parity_bias=rng.choice((0.0, 0.3)))
    if rng.random() < 0.04:
        # a circuit without any primary output: nothing can be sensitized to an endpoint
        for v in net["nodes"].values():
            v[2] = False
    if rng.random() < 0.12:
        # a functionally constant node: x & ~x
        names = list(net["nodes"])
        ins = ref.inputs(net)
        a = rng.choice(ins)
        net["nodes"]["kn_" + a] = ["not", [a], False]
        net["nodes"]["kc_" + a] = [rng.choice(("and", "nor", "xnor")), [a, "kn_" + a], True]
    names = list(net["nodes"])
    gates = [n for n in names if net["nodes"][n][0] in ref.GATES]
    picks = []
    for _ in range(rng.randint(1, 3)):
        r = rng.random()
        if gates and r < 0.7:
            # later gates have wider cones
            picks.append(gates[min(len(gates) - 1, int(len(gates) * (1 - rng.random() ** 2)))])
        else:
            picks.append(rng.choice(names))
    outs = ref.outputs(net)
    ft = [n for n in outs if net["nodes"][n][0] == "input"]
    if ft and rng.random() < 0.5:
        picks.append(rng.choice(ft))   # a feed-through pin: startpoint and endpoint at once
    eps = None
    if rng.random() < 0.4 and outs:
        eps = rng.sample(outs, rng.randint(1, len(outs)))
    elif rng.random() < 0.05:
        eps = []          # the empty endpoint subset: nothing is selected, so nothing can be sensitized
    if eps and len(picks) < 3 and rng.random() < 0.6:
        # several nodes analysed against the same endpoint selection; nodes whose cone reaches only some of them
        picks += rng.sample(names, min(len(names), 2))
    return {"net": net, "nodes": picks, "endpoints": eps, "assume": rng.random() < 0.3, "eps_as_set": rng.random() < 0.6,
            "ns_iter": rng.random() < 0.25,
            "peer": {"seed": rng.getrandbits(32), "policy": rng.choice(peers.SOLVER_POLICIES)}}


def flip_var(f, i, k):
    v = ref.var_tts(k)[i]
    sh = 1 << i
    return ((f & v) >> sh) | ((f & ~v & ((1 << (1 << k)) - 1)) << sh)


def run(case, ctx):
    cg = ctx.cg
    net = case["net"]
    if not ref.is_lint_clean(net) or ref.is_cyclic(net) or net["bbs"]:
        raise Skip("precondition")
    nodes = net["nodes"]
    if any(n.startswith(("c0_", "c1_", "dif_", "orig_", "inv_", "pc_", "sen_out_")) or n == "sat" for n in nodes):
        raise Skip("reserved names")
    c = ref.build(cg, net)
    before = ref.snapshot(c)
    outs = ref.outputs(net)
    nontrivial = False
    multi_expect = {}
    shared_eps = None
    for n in case["nodes"]:
        if n not in nodes:
            continue
        cone = ref.transitive_fanin(net, [n]) | {n}
        sp = sorted(x for x in cone if nodes[x][0] == "input")
        if not sp:
            continue
        if len(sp) > 11:
            raise Skip("cone too wide")
        k = len(sp)
        ctx.probe(f"sp={k}")
        sig = {"n_is_input": nodes[n][0] == "input", "n_is_output": bool(nodes[n][2])}
        if sig["n_is_input"]:
            ctx.probe("n_is_input")
        if sig["n_is_output"]:
            ctx.probe("n_is_output")
        # ---- definitions on truth tables over sp(n)
        cone_net = {"name": "cone", "nodes": {x: nodes[x] for x in nodes if x in cone}, "bbs": {}}
        tt, _, full = ref.truth_tables(cone_net, sp)
        f = tt[n]
        difs = {s: f ^ flip_var(f, i, k) for i, s in enumerate(sp)}
        counts = [sum((difs[s] >> v) & 1 for s in sp) for v in range(1 << k)]
        want_sens = max(counts)
        if want_sens == 0:
            ctx.probe("sensitivity_0")
        if sum(1 for s in sp if difs[s]) >= 2:
            nontrivial = True
        # ---- sensitivity_transform
        sen = ctx.call("C11.sensitivity_transform_raises", sig, cg.tx.sensitivity_transform, c, n)
        ss = ref.snapshot(sen)
        ctx.log("sen", n, state_digest(sen))
        if ref.is_cyclic(ss) or ref.wiring_violations(ss, undriven=True):
            ctx.violate("C11.sen_illegal", f"sensitivity_transform({n}) is ill-formed: {ref.wiring_violations(ss, undriven=True)[:3]}", sig)
        if ref.inputs(ss) != sp or sorted(ref.free_nodes(ss)) != sp:
            ctx.violate("C11.sen_inputs", f"sensitivity_transform({n}): inputs {ref.inputs(ss)} / free "
                        f"{sorted(ref.free_nodes(ss))} != startpoints {sp}", sig)
        ts, _, _ = ref.truth_tables(ss, sp)
        for s in sp:
            if f"dif_out_{s}" not in ts:
                ctx.violate("C11.sen_missing", f"no node dif_out_{s}", sig)
            if ts[f"dif_out_{s}"] != difs[s]:
                ctx.violate("C11.dif_out", f"sensitivity_transform({n}): dif_out_{s} differs from 'flipping {s} flips {n}', "
                            f"e.g. under {ref.witness(ts[f'dif_out_{s}'], difs[s], sp)}", dict(sig, sp=k))
        width = 0
        while (1 << width) < k + 1:
            width += 1
        bits = []
        for o in range(width):
            if f"sen_out_{o}" not in ts or not ss["nodes"][f"sen_out_{o}"][2]:
                ctx.violate("C11.sen_missing", f"no output sen_out_{o} (need {width} bits for {k} startpoints)", dict(sig, sp=k))
            bits.append(ts[f"sen_out_{o}"])
        if f"sen_out_{width}" in ts:
            ctx.violate("C11.sen_extra", f"unexpected output sen_out_{width}", dict(sig, sp=k))
        for v in range(1 << k):
            got = sum(((b >> v) & 1) << o for o, b in enumerate(bits))
            if got != counts[v]:
                ctx.violate("C11.sen_out", f"sensitivity_transform({n}): sen_out encodes {got} but {counts[v]} startpoints "
                            f"flip {n} under {({s: (v >> i) & 1 for i, s in enumerate(sp)})}", dict(sig, sp=k))
        # ---- props.sensitivity
        u0 = ctx.peer.solver_stats.get("unsat", 0)
        got_sens = ctx.call("C11.sensitivity_raises", dict(sig, sp=k), cg.props.sensitivity, c, n)
        ctx.probe("sensitivity")
        ctx.log("sensitivity", n, got_sens)
        if ctx.peer.solver_stats.get("unsat", 0) - u0 >= 2:
            ctx.probe("unsat_steps>=2")
        if got_sens != want_sens:
            ctx.violate("C11.sensitivity", f"sensitivity({n}) = {got_sens}, expected {want_sens} ({k} startpoints)", dict(sig, sp=k))
        # ---- influence / avg_sensitivity
        if k > 8:
            ctx.probe("sp>8")
        if k <= 6:
            infl = ctx.call("C11.influence_raises", sig, cg.props.influence, c, n, approx=False)
            ctx.probe("influence")
            ctx.log("influence", n, sorted(infl.items()) if isinstance(infl, dict) else infl)
            if not isinstance(infl, dict) or set(infl) != set(sp):
                ctx.violate("C11.influence_keys", f"influence({n}) = {infl!r}; expected keys {sp}", sig)
            for s in sp:
                want_i = ref.popcount(difs[s]) / (1 << k)
                if abs(infl[s] - want_i) > 1e-12:
                    ctx.violate("C11.influence", f"influence({n})[{s}] = {infl[s]}, expected {want_i}", sig)
            avg = ctx.call("C11.avg_sensitivity_raises", sig, cg.props.avg_sensitivity, c, n, approx=False)
            want_avg = sum(ref.popcount(difs[s]) for s in sp) / (1 << k)
            if abs(avg - want_avg) > 1e-9:
                ctx.violate("C11.avg_sensitivity", f"avg_sensitivity({n}) = {avg}, expected {want_avg}", sig)
            multi_expect[n] = ({s: ref.popcount(difs[s]) / (1 << k) for s in sp}, want_avg)
    # ---- the list form with a single node (either the flat or the per-node shape is accepted)
    if len(multi_expect) == 1:
        (n1, (wi, wa)), = multi_expect.items()
        ctx.probe("influence_list_of_one")
        sig1 = {"list_form": "one"}
        if case.get("ns_iter"):
            # the selection handed over as a one-shot iterable (a generator expression at the call site)
            ctx.probe("selection_as_iterator")
            sig1 = {"list_form": "one", "as": "iterator"}
            tw, st = getattr(ctx, "twice", False), getattr(ctx, "stale", False)
            ctx.twice = ctx.stale = False
            a1 = ctx.call("C11.avg_sensitivity_raises", sig1, cg.props.avg_sensitivity, c, iter([n1]), approx=False)
            ctx.twice, ctx.stale = tw, st
        else:
            a1 = ctx.call("C11.avg_sensitivity_raises", sig1, cg.props.avg_sensitivity, c, [n1], approx=False)
        if isinstance(a1, dict):
            a1 = a1.get(n1)
        if not isinstance(a1, (int, float)) or abs(a1 - wa) > 1e-9:
            ctx.violate("C11.avg_sensitivity", f"avg_sensitivity([{n1}]) = {a1!r}, expected {wa}", sig1)
    # ---- the list form of influence / avg_sensitivity (several nodes in one call)
    if len(multi_expect) >= 2:
        ns = sorted(multi_expect)
        ctx.probe("influence_list_form")
        sigm = {"list_form": True}
        if case.get("ns_iter"):
            ctx.probe("selection_as_iterator")
            sigm = {"list_form": True, "as": "iterator"}
            tw, st = getattr(ctx, "twice", False), getattr(ctx, "stale", False)
            ctx.twice = ctx.stale = False
            allinf = ctx.call("C11.influence_raises", sigm, cg.props.influence, c, iter(list(ns)), approx=False)
            allavg = ctx.call("C11.avg_sensitivity_raises", sigm, cg.props.avg_sensitivity, c, iter(list(ns)), approx=False)
            ctx.twice, ctx.stale = tw, st
        else:
            allinf = ctx.call("C11.influence_raises", sigm, cg.props.influence, c, list(ns), approx=False)
            allavg = ctx.call("C11.avg_sensitivity_raises", sigm, cg.props.avg_sensitivity, c, list(ns), approx=False)
        if not isinstance(allinf, dict) or set(allinf) != set(ns) or not isinstance(allavg, dict) or set(allavg) != set(ns):
            ctx.violate("C11.influence_keys", f"influence/avg_sensitivity({ns}) returned {allinf!r} / {allavg!r}", sigm)
        for n2 in ns:
            wi, wa = multi_expect[n2]
            if set(allinf[n2]) != set(wi) or any(abs(allinf[n2][s] - wi[s]) > 1e-12 for s in wi):
                ctx.violate("C11.influence", f"influence({ns})[{n2}] = {allinf[n2]}, expected {wi}", sigm)
            if abs(allavg[n2] - wa) > 1e-9:
                ctx.violate("C11.avg_sensitivity", f"avg_sensitivity({ns})[{n2}] = {allavg[n2]}, expected {wa}", sigm)
    # ---- sensitization_transform / sensitize on the first picked node
    n = case["nodes"][0]
    if n in nodes and not outs:
        # no endpoint at all: no valuation sensitizes n to an endpoint
        ctx.probe("no_endpoints")
        sig = {"n_is_input": nodes[n][0] == "input", "n_is_output": False, "endpoints": False, "no_outputs": True}
        res = ctx.call("C11.sensitize_raises", sig, cg.props.sensitize, c, n, None)
        ctx.log("sensitize", n, None if res is None else sorted(res.items()))
        if res is not None:
            ctx.violate("C11.sensitize_wrong", f"sensitize({n}) returned {res} for a circuit without any endpoint", sig)
    if n in nodes and outs and case["endpoints"] is not None and len(case["endpoints"]) == 0:
        ctx.probe("empty_endpoint_subset")
        sig = {"n_is_input": nodes[n][0] == "input", "n_is_output": bool(nodes[n][2]), "endpoints": "empty"}
        try:
            ctx.warm(cg.tx.sensitization_transform, c, n, endpoints=[])
            m = cg.tx.sensitization_transform(c, n, endpoints=[])
        except ValueError:
            m = None          # a refusal is fine: n is not in the fan-in of the (no) selected endpoints
        except Exception as e:
            ctx.violate("C11.sensitization_transform_raises", f"sensitization_transform({n}, endpoints=[]) raised "
                        f"{type(e).__name__}: {e}", dict(sig, exc=type(e).__name__))
        if m is not None:
            ms = ref.snapshot(m)
            fr = ref.free_nodes(ms)
            if len(fr) <= 10:
                tm, _, _ = ref.truth_tables(ms, fr)
                if tm.get("sat") != 0:
                    ctx.violate("C11.sens_sat", f"sensitization_transform({n}, endpoints=[]): no endpoint is selected but "
                                f"'sat' can be 1, e.g. under {ref.witness(tm.get('sat', 0), 0, fr)}", sig)
    elif n in nodes and outs:
        eps = case["endpoints"]
        sig = {"n_is_input": nodes[n][0] == "input", "n_is_output": bool(nodes[n][2]), "endpoints": bool(eps)}
        if eps:
            E = sorted(set(eps))
            fi = ref.transitive_fanin(net, E)
            if n not in fi:
                eps = None
        if eps:
            ctx.probe("endpoints_subset")
            E = sorted(set(eps))
            keep = ref.transitive_fanin(net, E) | set(E)
            sub = {"name": "sub", "nodes": {x: [nodes[x][0], list(nodes[x][1]), x in E] for x in nodes if x in keep}, "bbs": {}}
        else:
            E = outs
            sub = net
        sps = ref.inputs(sub)
        if not (n in ref.transitive_fanin(sub, E) or n in E):
            ctx.probe("node_reaches_no_endpoint")     # nothing can be sensitized: `sat` must be constant 0, sensitize None
        if len(sps) <= 10:
            tt, _, full = ref.truth_tables(sub, sps)
            tt2, _, _ = ref.truth_tables(sub, sps, fixed={n: tt[n] ^ full})
            want = 0
            for e in E:
                want |= tt[e] ^ tt2[e]
            if eps and shared_eps is None:
                # one endpoints object for every call of the run, as a caller looping over nodes passes it
                shared_eps = (set if case.get("eps_as_set") else list)(E)
                ctx.probe("same_endpoints_object_for_all_calls")
            m = ctx.call("C11.sensitization_transform_raises", sig, cg.tx.sensitization_transform, c, n,
                         endpoints=shared_eps if eps else None)
            ms = ref.snapshot(m)
            ctx.log("sens_tx", n, state_digest(m))
            if ref.is_cyclic(ms) or ref.wiring_violations(ms, undriven=True):
                ctx.violate("C11.sens_illegal", f"sensitization_transform({n}) ill-formed: "
                            f"{ref.wiring_violations(ms, undriven=True)[:3]}", sig)
            if ref.inputs(ms) != sps or sorted(ref.free_nodes(ms)) != sps:
                ctx.violate("C11.sens_inputs", f"sensitization_transform({n}): inputs {ref.inputs(ms)} != startpoints {sps}", sig)
            tm, _, _ = ref.truth_tables(ms, sps)
            if tm.get("sat") != want:
                ctx.violate("C11.sens_sat", f"sensitization_transform({n}, endpoints={E if eps else None}): 'sat' differs from "
                            f"'inverting {n} changes an endpoint', e.g. under {ref.witness(tm.get('sat', 0), want, sps)}", sig)
            if not eps:
                A = None
                cw = want
                if case["assume"] and sps:
                    a = sps[0]
                    A = {a: True}
                    cw = want & ref.var_tts(len(sps))[0]
                res = ctx.call("C11.sensitize_raises", sig, cg.props.sensitize, c, n, A)
                ctx.log("sensitize", n, None if res is None else sorted(res.items()))
                if res is None:
                    ctx.probe("sensitize_none")
                    if cw:
                        ctx.violate("C11.sensitize_none", f"sensitize({n}, {A}) returned None but a sensitizing valuation "
                                    f"exists, e.g. {ref.witness(cw, 0, sps)}", sig)
                else:
                    ctx.probe("sensitize_witness")
                    if set(res) != set(sps):
                        ctx.violate("C11.sensitize_keys", f"sensitize({n}) keys {sorted(res)} != startpoints {sps}", sig)
                    i = sum((1 << j) for j, s in enumerate(sps) if res[s])
                    if not (cw >> i) & 1:
                        ctx.violate("C11.sensitize_wrong", f"sensitize({n}, {A}) returned {res}, which does not sensitize "
                                    f"{n} to an output" + (" under the assumption" if A else ""), sig)
    if ref.snapshot(c) != before:
        ctx.violate("C11.mutated_arg", "an analysis changed its argument", {})
    ctx.stats["steps"] += 1
    if nontrivial:
        ctx.stats["nontrivial"] += 1


def sig_key(sig):
    return (sig.get("exc"), sig.get("n_is_input"), sig.get("endpoints"), sig.get("list_form"), sig.get("no_outputs"))


def shrink(case):
    if len(case["nodes"]) > 1:
        for n in case["nodes"]:
            yield dict(case, nodes=[n])
    if case["endpoints"]:
        yield dict(case, endpoints=None)
    if case["assume"]:
        yield dict(case, assume=False)
    if case.get("ns_iter"):
        yield dict(case, ns_iter=False)
    for net in G.shrink_net(case["net"]):
        if net is not None and ref.is_lint_clean(net) and not ref.is_cyclic(net):
            nn = [n for n in case["nodes"] if n in net["nodes"]]
            if nn:
                eps = [e for e in (case["endpoints"] or []) if e in net["nodes"] and net["nodes"][e][2]] or None
                yield dict(case, net=net, nodes=nn, endpoints=eps)
    if case["peer"].get("policy") != "inputs_first":
        yield dict(case, peer=dict(case["peer"], policy="inputs_first"))


def fingerprint(case, r):
    if r["stats"].get("nontrivial"):
        return fp([ref.canon(case["net"]), case["nodes"], case["endpoints"]])
    return None


def sample(case, r):
    return {k: case[k] for k in ("net", "nodes", "endpoints", "assume")}
