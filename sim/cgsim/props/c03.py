"""C03 - Verilog write -> read round-trip preserves the circuit.

Explores the hash world (it fixes the order of ports, wires, operands and instances in the emitted
text) and the file seam (to_file/from_file through SimFS, fault-free here)."""
import copy

from cgsim import gen as G, ref
from cgsim.core import fp, Skip, state_digest

ID = "C03"
QUICK = dict(worlds=16, runs=250, seconds=15)
THOROUGH = dict(worlds=256, runs=1500, seconds=30)
RULE = ("seeded lint-clean circuits with legal Verilog names (plain / escaped / synthetic look-alikes), constants, "
        "blackbox instances with connected and unconnected pins x behavioral in {False, True} x direct / file path; "
        "distinct = canonical net + flags; non-trivial = some output or blackbox input pin depends on a free signal")
PROBES = ["no_ports", "unconnected_output_pin", "unconnected_input_pin", "output_is_input", "output_is_const", "escaped_name",
          "multi1", "parity3+_behavioral", "file_path", "behavioral", "structural", "synthetic_lookalike", "bb",
          "identity_checked", "names_harvested_from_earlier_read"]
ASSUMPTIONS = ["<= 6 startpoints, <= 16 gates; no 'x' constants; module name plain; names never tie_0/tie_1/tie_x "
               "and never Verilog keywords"]

KEYWORDS = {"input", "output", "wire", "module", "endmodule", "assign", "and", "nand", "or", "nor", "xor", "xnor",
            "not", "buf", "tie_0", "tie_1", "tie_x"}


def verilog_names(rng, net, style):
    """Rename all non-pin nodes and instances to legal Verilog identifiers of the given style."""
    nodes = net["nodes"]
    used = set()
    mp = {}
    plain_pool = list("abcdefgxyz") + ["n", "w", "sig", "N", "_t", "G"]

    def plain():
        while True:
            n = rng.choice(plain_pool) + (str(rng.randrange(50)) if rng.random() < 0.8 else "")
            if rng.random() < 0.15:
                n += "_" + rng.choice(plain_pool)
            if n not in used and n not in KEYWORDS:
                used.add(n)
                return n

    def escaped():
        while True:
            body = rng.choice(("a", "bus", "x", "n1", "3v", "q$")) + rng.choice(("[0]", "[3]", "#1", "+", "", "/z", "[1][2]",
                                                                                     # every printable character is legal up to the blank
                                                                                     ",b", ";", "(1)", ")", "=0", "//c", "/*", "\"", "\\y"))
            n = "\\" + body + (str(rng.randrange(9)) if rng.random() < 0.5 else "")
            if n not in used and len(n) > 1:
                used.add(n)
                return n

    plain_nodes = [n for n in nodes if "." not in n]
    for n in plain_nodes:
        if style == "escaped" and rng.random() < 0.4:
            mp[n] = escaped()
        else:
            mp[n] = plain()
    extra_bufs = []
    if style == "synthetic":
        # names the expression machinery of the reader invents for partial terms of n-ary gates
        wide = [(n, v) for n, v in nodes.items() if v[0] in ref.MULTI and len(v[1]) >= 3]
        for n, (t, fi, o) in rng.sample(wide, min(len(wide), 2)):
            sym = {"and": "and", "nand": "and", "or": "or", "nor": "or", "xor": "xor", "xnor": "xor"}[t]
            ops = [f for f in fi if "." not in f]
            if len(ops) >= 2:
                x, y = rng.sample(ops, 2)
                new = f"{sym}_{mp[x]}_{mp[y]}"
                victims = [v for v in plain_nodes if v not in (x, y) and nodes[v][0] in ref.GATES]
                if victims and new not in used and "\\" not in new:
                    used.add(new)
                    v = rng.choice(victims)
                    mp[v] = new
                    if rng.random() < 0.6:
                        # a plain reader of the look-alike net ("assign w = xor_a_b;")
                        extra_bufs.append(v)
        vals = list(mp.values())
        for _ in range(rng.randint(1, 3)):
            a, b = rng.choice(vals), rng.choice(vals)
            new = rng.choice((f"and_{a}_{b}", f"or_{a}_{b}", f"xor_{a}_{b}", f"not_{a}", f"xnor_{a}_{b}",
                              f"mux_o_{a}_{b}_{a}", f"and_{a}_{b}_0", f"g_{rng.randrange(6)}"))
            victim = rng.choice(plain_nodes)
            if new not in used and "\\" not in new and mp[victim] not in new:
                used.add(new)
                mp[victim] = new
    if style == "synthetic" or rng.random() < 0.1:
        # look-alikes of everything the reader or writer treats specially by NAME: the reserved constant nets
        # (tie_0 / tie_1 / tie_x themselves are excluded by the property, names that merely resemble them are
        # not), keywords with a suffix, instance-like prefixes
        for _ in range(rng.randint(1, 2)):
            new = rng.choice(("tie_1_en", "tie_0_n", "tie_x2", "tie_00", "tie_", "tie", "tie_1x", "wire_1", "input_a",
                              "output_q", "assign_0", "module_x", "not_", "buf_1", "_tie_0", "endmodule_n", "x_endmodule",
                              "a$1", "n$", "endmodule$"))
            victim = rng.choice(plain_nodes)
            if new not in used and new not in KEYWORDS:
                used.add(new)
                mp[victim] = new
    inst_map = {}
    for inst in net["bbs"]:
        inst_map[inst] = plain()
    out_nodes = {}

    def rn(x):
        if "." in x:
            i, p = x.split(".", 1)
            return inst_map[i] + "." + p
        return mp[x]
    for n, (t, fi, o) in nodes.items():
        out_nodes[rn(n)] = [t, [rn(f) for f in fi], o]
    for v in extra_bufs:
        b = plain()
        out_nodes[b] = ["buf", [rn(v)], rng.random() < 0.7]
    if extra_bufs and rng.random() < 0.5:
        items = list(out_nodes.items())
        rng.shuffle(items)
        out_nodes = dict(items)
    return {"name": net["name"], "nodes": out_nodes, "bbs": {inst_map[i]: v for i, v in net["bbs"].items()}}


def gen(rng, tier):
    style = rng.choices(("plain", "escaped", "synthetic"), weights=[5, 2.5, 2.5])[0]
    nb = rng.choice((0, 0, 1, 2, 3))
    big = tier == "thorough" and rng.random() < 0.25
    bare = rng.random() < 0.06       # no gate at all: every output is an input, blackbox pins sit directly on inputs
    net = G.gen_net(rng, n_inputs=(2, 6) if big else (1, 5), n_gates=(0, 0) if bare else ((10, 24) if big else (1, 12)), types=G.swarm_types(rng),
                    max_arity=rng.randint(2, 5), constants=rng.choice((0.0, 0.0, 0.6)), bbs=nb, unconnected_pins=rng.choice((0.0, 0.3)),
                    input_outputs=0.6 if bare else rng.choice((0.0, 0.25)), name=rng.choice(("top", "m1", "dut_x", "top$1", "t$")),
                    parity_bias=rng.choice((0.0, 0.3)), min_outputs=0 if (nb and rng.random() < 0.15) else 1)
    if net["bbs"] and rng.random() < 0.35:
        # cell names as libraries spell them: Verilog is case-sensitive, so BUF, Nand or Module are ordinary module
        # names, not the primitives / keywords they resemble
        pool = ["BUF", "Nand", "XOR", "Not", "AND", "Or", "XNOR", "AND2", "BUFX1", "DFFX1", "dff", "Module", "INPUT", "Wire", "Assign",
                "and_", "nor2", "buf_x", "tie_0", "endmodule_"]
        tmap = {}
        for t in sorted({v[0] for v in net["bbs"].values()}):
            tmap[t] = pool.pop(rng.randrange(len(pool)))
        for inst, v in net["bbs"].items():
            v[0] = tmap[v[0]]
    if nb and rng.random() < 0.1:
        # no primary io at all: constants feeding blackboxes only ('module m ();')
        for n, v in net["nodes"].items():
            if v[0] == "input":
                v[0] = rng.choice(("0", "1"))
            v[2] = False
    net = verilog_names(rng, net, style)
    return {"net": net, "behavioral": rng.random() < 0.5, "via_file": rng.random() < 0.3, "style": style,
            "harvest": rng.random() < 0.2,
            "path": rng.choice(("/sim/{name}.v", "/sim/dir/{name}.v", "/sim/{name}.txt")),
            "peer": {"seed": rng.getrandbits(32)}}


def run(case, ctx):
    cg = ctx.cg
    net = case["net"]
    nodes = net["nodes"]
    if ref.wiring_violations(net) or ref.is_cyclic(net):
        raise Skip("precondition")
    # lint-clean except that blackbox input pins may be left unconnected (explicitly in the statement)
    for n, (t, fi, o) in nodes.items():
        if t in ref.GATES and not fi:
            raise Skip("undriven gate")
        if t == "x":
            raise Skip("x constant")
    if case.get("harvest"):
        # history: an earlier read in the same interpreter invented names (and_a_b, xor_..., not_...); the circuit
        # written now has nets called exactly that (a user who saved a read-back circuit, or plain coincidence)
        import random
        import re
        lr = random.Random(case["peer"]["seed"])
        pre_types = [cg.BlackBox(t, list(i), list(o)) for t, i, o in {v[0]: v for v in net["bbs"].values()}.values()]
        try:
            text0 = cg.io.circuit_to_verilog(ref.build(cg, net), behavioral=True)
            pre = cg.io.verilog_to_circuit(text0, net["name"], blackboxes=pre_types)
            invented = sorted(n for n in pre.graph.nodes if n not in nodes and re.fullmatch(r"[A-Za-z_][A-Za-z0-9_]*", n)
                              and not n.startswith("tie_"))   # the reader's reserved constant names stay excluded
        except Exception:
            invented = []
        targets = sorted(n for n, v in nodes.items() if "." not in n and v[0] not in ("0", "1"))
        if invented and targets:
            mp = {}
            for new in lr.sample(invented, min(len(invented), lr.randint(1, 2))):
                old = lr.choice(targets)
                if old not in mp:
                    mp[old] = new
            net = G.rename(net, mp)
            nodes = net["nodes"]
            ctx.probe("names_harvested_from_earlier_read")
    free = ref.free_nodes(net)
    if len(free) > 10:
        raise Skip("too many free signals")
    beh = case["behavioral"]
    sig = {"behavioral": beh, "style": case["style"], "via_file": case["via_file"]}
    feats = G.features(net)
    if "bb" in feats:
        ctx.probe("bb")
    if "multi1" in feats:
        ctx.probe("multi1")
    if "parity3+" in feats and beh:
        ctx.probe("parity3+_behavioral")
    if "input_is_output" in feats:
        ctx.probe("output_is_input")
    if "const_is_output" in feats:
        ctx.probe("output_is_const")
    if any(n.startswith("\\") for n in nodes):
        ctx.probe("escaped_name")
    if case["style"] == "synthetic":
        ctx.probe("synthetic_lookalike")
    fo = ref.fanout_map(net)
    unconn_out = any(t == "bb_output" and not fo[n] for n, (t, fi, o) in nodes.items())
    unconn_in = any(t == "bb_input" and not fi for n, (t, fi, o) in nodes.items())
    if unconn_out:
        ctx.probe("unconnected_output_pin")
    if unconn_in:
        ctx.probe("unconnected_input_pin")
    sig["unconnected_pin"] = unconn_out or unconn_in
    ctx.probe("behavioral" if beh else "structural")
    if not ref.inputs(net) and not ref.outputs(net):
        ctx.probe("no_ports")
        sig["no_ports"] = True
    c = ref.build(cg, net)
    types = {}
    for inst, (tname, ins, outs) in net["bbs"].items():
        types[tname] = cg.BlackBox(tname, list(ins), list(outs))
    bbl = list(types.values())
    before = ref.snapshot(c)
    if case["via_file"]:
        ctx.probe("file_path")
        path = case["path"].format(name=net["name"])
        kw = {} if path.endswith(".v") else {"fmt": "verilog"}
        ctx.call("C03.to_file_raises", sig, cg.to_file, c, path, behavioral=beh, **({"fmt": "verilog"} if kw else {}))
        text = ctx.peer.fs.files.get(path, "")
        c2 = ctx.call("C03.read_raises", sig, cg.from_file, path, blackboxes=bbl, **kw)
    else:
        text = ctx.call("C03.write_raises", sig, cg.io.circuit_to_verilog, c, behavioral=beh)
        c2 = ctx.call("C03.read_raises", sig, cg.io.verilog_to_circuit, text, net["name"], blackboxes=bbl)
    ctx.log("text", fp(text), len(text))
    ctx.observe_order([ln.split()[1].rstrip(";") for ln in text.split("\n") if ln.strip().startswith("input ")])
    if ref.snapshot(c) != before:
        ctx.violate("C03.mutated_arg", "the writer changed its argument", sig)
    got = ref.snapshot(c2)
    ctx.log("read", state_digest(c2))
    ctx.stats["steps"] += 1
    tail = f"\n--- text ---\n{text[:1500]}"
    if got["name"] != net["name"]:
        ctx.violate("C03.name", f"name {got['name']!r} != {net['name']!r}", sig)
    if ref.inputs(got) != ref.inputs(net):
        ctx.violate("C03.inputs", f"inputs {ref.inputs(got)} != {ref.inputs(net)}{tail}", sig)
    if ref.outputs(got) != ref.outputs(net):
        ctx.violate("C03.outputs", f"outputs {ref.outputs(got)} != {ref.outputs(net)}{tail}", sig)
    if {k: (v[0], sorted(v[1]), sorted(v[2])) for k, v in got["bbs"].items()} != \
            {k: (v[0], sorted(v[1]), sorted(v[2])) for k, v in net["bbs"].items()}:
        ctx.violate("C03.registry", f"instances {got['bbs']} != {net['bbs']}{tail}", sig)
    gfo = ref.fanout_map(got)
    for n, (t, fi, o) in nodes.items():
        if t == "bb_input":
            if n not in got["nodes"] or got["nodes"][n][0] != "bb_input" or sorted(got["nodes"][n][1]) != sorted(fi):
                ctx.violate("C03.pin_net", f"pin {n}: attached to {got['nodes'].get(n)} instead of {fi}{tail}", sig)
        if t == "bb_output":
            if n not in got["nodes"] or got["nodes"][n][0] != "bb_output" or sorted(gfo[n]) != sorted(fo[n]):
                ctx.violate("C03.pin_net", f"pin {n}: drives {gfo.get(n)} instead of {fo[n]}{tail}", sig)
    bad = ref.wiring_violations(got)
    if bad or ref.is_cyclic(got):
        ctx.violate("C03.illegal", f"read-back circuit is ill-formed: {bad[:3]}{tail}", sig)
    if sorted(ref.free_nodes(got)) != free:
        ctx.violate("C03.free", f"free signals {sorted(ref.free_nodes(got))} != {free}{tail}", sig)
    tw, _, full = ref.truth_tables(net, free)
    tg, _, _ = ref.truth_tables(got, free)
    dep = False
    for n in ref.topo_order(net):
        t, fi, o = nodes[n]
        if o or t == "bb_input":
            if n not in tg:
                ctx.violate("C03.missing", f"{n} missing after the round trip{tail}", sig)
            if tw[n] != tg[n]:
                ctx.violate("C03.function", f"{'output' if o else 'pin'} {n} changed function, e.g. under "
                            f"{ref.witness(tw[n], tg[n], free)}{tail}", sig)
            if tw[n] not in (0, full):
                dep = True
    if not beh and not any(v[0] in ("0", "1") for v in nodes.values()):
        ctx.probe("identity_checked")
        if ref.canon(got) != ref.canon(net):
            a, b = ref.canon(net), ref.canon(got)
            d1 = sorted(set(a[1]) - set(b[1]))[:3]
            d2 = sorted(set(b[1]) - set(a[1]))[:3]
            ctx.violate("C03.identity", f"gate-primitive round trip is not the identity: lost {d1} gained {d2}{tail}", sig)
    if dep:
        ctx.stats["nontrivial"] += 1


def sig_key(sig):
    return (sig.get("behavioral"), sig.get("exc"), sig.get("unconnected_pin"), sig.get("style") == "synthetic",
            sig.get("no_ports"))


def shrink(case):
    if case["via_file"]:
        yield dict(case, via_file=False)
    if case.get("harvest"):
        yield dict(case, harvest=False)
    for net in G.shrink_net(case["net"]):
        if net is None or ref.wiring_violations(net) or ref.is_cyclic(net):
            continue
        if any(v[0] in ref.GATES and not v[1] for v in net["nodes"].values()):
            continue
        if case["style"] == "synthetic" and not any("_" in n for n in net["nodes"]):
            pass
        yield dict(case, net=net)


def fingerprint(case, r):
    if r["stats"].get("nontrivial"):
        return fp([ref.canon(case["net"]), case["behavioral"], case["via_file"]])
    return None


def sample(case, r):
    return {k: case[k] for k in ("net", "behavioral", "via_file", "style")}
