"""C05 - fan-in / fan-out limiting, register insertion and acyclic_unroll of acyclic circuits
preserve function.  Explores the hash world: set order decides which operands are grouped."""
from cgsim import gen as G, ref
from cgsim.core import fp, Skip, state_digest

ID = "C05"
QUICK = dict(worlds=16, runs=800, seconds=15)
THOROUGH = dict(worlds=256, runs=5000, seconds=30)
RULE = ("seeded lint-clean circuit x one of limit_fanin/limit_fanout/insert_registers/acyclic_unroll; distinct = "
        "canonical net + op + k; non-trivial = the transform actually had something to do (arity or fan-out above k, "
        "a stage boundary with nodes, or >= 2 gates for acyclic_unroll)")
PROBES = ["chained_transforms", "fanin>k:and", "fanin>k:nand", "fanin>k:or", "fanin>k:nor", "fanin>k:xor", "fanin>k:xnor",
          "regroup_rounds>=2", "fanout>k:input", "fanout>k:gate", "stage_boundary>=2", "acyclic_unroll:input_is_output"]
ASSUMPTIONS = ["<= 12 startpoints, <= 22 gates, gates up to 12 operands", "no 'x' constants",
               "names the transforms generate (c0_<n>, aux_in_<n> as startpoint/output names for acyclic_unroll) are avoided: the library refuses such circuits with ValueError"]


def gen(rng, tier):
    op = rng.choices(("limit_fanin", "limit_fanout", "insert_registers", "acyclic_unroll"), weights=[4, 3, 2, 2])[0]
    k = rng.randint(2, 5)
    big = tier == "thorough" and rng.random() < 0.3
    if op == "limit_fanin" and rng.random() < 0.08:
        net = G.gen_net(rng, n_inputs=(9, 12), n_gates=(1, 3), types=G.swarm_types(rng), max_arity=12, constants=0.1,
                        parity_bias=0.4)
    elif op == "limit_fanin":
        net = G.gen_net(rng, n_inputs=(4, 8) if big else (2, 6), n_gates=(8, 16) if big else (1, 10), types=G.swarm_types(rng), max_arity=8 if big else 7,
                        constants=0.25, bbs=rng.choice((0, 0, 1)), parity_bias=rng.choice((0.0, 0.5)))
    elif op == "limit_fanout":
        net = G.gen_net(rng, n_inputs=(1, 4) if big else (1, 3), n_gates=(10, 22) if big else (3, 14), types=G.swarm_types(rng), max_arity=3,
                        constants=0.2, bbs=rng.choice((0, 0, 1, 2, 3)))
        pins = [n for n, v in net["nodes"].items() if v[0] == "bb_input"]
        if len(pins) >= 2 and rng.random() < 0.5:
            # one net (a clock, an enable) wired to many pins of the instances: its loads are pins, not gates
            drv = rng.choice([n for n, v in net["nodes"].items() if v[0] not in ("bb_input", "bb_output")])
            for p in rng.sample(pins, rng.randint(2, len(pins))):
                net["nodes"][p][1] = [drv]
    elif op == "insert_registers":
        net = G.gen_net(rng, n_inputs=(1, 4), n_gates=(2, 12), types=G.swarm_types(rng), max_arity=3, constants=0.2,
                        bbs=rng.choice((0, 0, 0, 1, 2)))
        if rng.random() < 0.1:
            # a net that is already called like the clock input insert_registers adds (`clk`): an input or a gate
            plain = [n for n in net["nodes"] if "." not in n and net["nodes"][n][0] not in ("0", "1")]
            if plain:
                net = G.rename(net, {rng.choice(plain): "clk"})
    else:
        net = G.gen_net(rng, n_inputs=(1, 4), n_gates=(1, 10), types=G.swarm_types(rng), max_arity=4, constants=0.2,
                        input_outputs=rng.choice((0.0, 0.3)))
    if op == "insert_registers" and rng.random() < 0.03:
        # liveness on a deep reconvergent shape: a two-wide ladder of L levels (2L+2 nodes, every level re-converges)
        L = rng.randint(18, 26)
        nodes = {"a0": ["input", [], False], "b0": ["input", [], False]}
        for l in range(1, L + 1):
            nodes[f"a{l}"] = [rng.choice(("and", "or", "nand")), [f"a{l-1}", f"b{l-1}"], l == L]
            nodes[f"b{l}"] = [rng.choice(("xor", "xnor", "nor")), [f"a{l-1}", f"b{l-1}"], l == L]
        return {"net": {"name": "ladder", "nodes": nodes, "bbs": {}}, "op": op, "k": 2, "stages": rng.randint(1, 4), "pre": [],
                "bounded": 3000000, "peer": {"seed": rng.getrandbits(32)}}
    pre = []
    if rng.random() < 0.4:
        # a history: earlier transforms whose RESULT (with its generated names) is the argument of the judged call
        for _ in range(rng.randint(1, 2)):
            pre.append([rng.choice(("limit_fanin", "limit_fanin", "limit_fanout") + (("insert_registers",) if op in ("insert_registers", "limit_fanout") else ())),
                        rng.randint(2, 6)])
    return {"net": net, "op": op, "k": k, "stages": rng.randint(1, 4), "pre": pre, "peer": {"seed": rng.getrandbits(32)}}


def run(case, ctx):
    cg = ctx.cg
    net = case["net"]
    op, k = case["op"], case["k"]
    if not ref.is_lint_clean(net) or ref.is_cyclic(net):
        raise Skip("precondition")
    free = ref.free_nodes(net)
    if len(free) > 12:
        raise Skip("too many startpoints")
    c = ref.build(cg, net)
    sig = {"op": op}
    for pop, pk in case.get("pre", []):
        # the earlier calls are workload; each is judged by its own runs.  Their result becomes the argument.
        try:
            c = getattr(cg.tx, pop)(c, pk)
        except Exception as e:
            raise Skip(f"pre-step {pop} raised {type(e).__name__}")
        ctx.probe("chained_transforms")
        sig["chained"] = True
    if case.get("pre"):
        net = ref.snapshot(c)
        net = {"name": net["name"], "nodes": net["nodes"], "bbs": net["bbs"]}
        if not ref.is_lint_clean(net) or ref.is_cyclic(net):
            raise Skip("pre-steps left an ill-formed circuit (reported by their own runs)")
        free = ref.free_nodes(net)
        if len(free) > 12:
            raise Skip("too many startpoints after the earlier transforms")
    before = ref.snapshot(c)
    nodes = net["nodes"]
    fo = ref.fanout_map(net)
    if op == "limit_fanin":
        for n, (t, fi, o) in nodes.items():
            if len(fi) > k:
                ctx.probe(f"fanin>k:{t}")
                ctx.observe_order(c.fanin(n))
                if len(fi) - k >= 2:
                    ctx.probe("regroup_rounds>=2")
        r = ctx.call("C05.raises", sig, cg.tx.limit_fanin, c, k)
    elif op == "limit_fanout":
        for n in nodes:
            if len(fo[n]) > k:
                ctx.probe("fanout>k:input" if nodes[n][0] == "input" else "fanout>k:gate")
                ctx.observe_order(c.fanout(n))
        r = ctx.call("C05.raises", sig, cg.tx.limit_fanout, c, k)
    elif op == "insert_registers":
        if net["bbs"]:
            ctx.probe("insert_registers:pre-existing_blackboxes")
        depth = ref.depth_map(net)
        md = max(depth.values())
        inc = round(md / (case["stages"] + 1))
        if inc < 1:
            raise Skip("no stage boundary")
        if any(i.startswith("ff_") for i in net["bbs"]):
            ctx.probe("insert_registers:already_pipelined")     # flops from an earlier insert_registers call stay opaque
        if "clk" in nodes:
            ctx.probe("insert_registers:clk_exists")
            sig["clk_exists"] = nodes["clk"][0]
        for i in range(inc, md, inc):
            if sum(1 for n in depth if depth[n] == i) >= 2:
                ctx.probe("stage_boundary>=2")
        if case.get("bounded"):
            # bounded liveness: the call has to finish within a budget of executed source lines (a deterministic clock)
            from cgsim.core import bounded, StepLimit
            ctx.probe("insert_registers:step_budget")
            try:
                r, steps = bounded(cg.tx.insert_registers, int(case["bounded"]), c, case["stages"])
            except StepLimit:
                ctx.violate("C05.no_progress", f"insert_registers did not finish within {case['bounded']} executed lines on a "
                            f"{len(nodes)}-node ladder circuit", dict(sig, bounded=True))
            except Exception as e:
                ctx.violate("C05.raises", f"insert_registers raised {type(e).__name__}: {e}", dict(sig, exc=type(e).__name__))
            ctx.stats["traced_lines"] += steps
        else:
            r = ctx.call("C05.raises", sig, cg.tx.insert_registers, c, case["stages"])
    else:
        if net["bbs"]:
            raise Skip("acyclic_unroll workload is blackbox-free")
        if any(t == "input" and o for t, fi, o in nodes.values()):
            ctx.probe("acyclic_unroll:input_is_output")
            sig["input_is_output"] = True
        r = ctx.call("C05.raises", sig, cg.tx.acyclic_unroll, c)
    rs = ref.snapshot(r)
    ctx.log(op, k, state_digest(r))
    ctx.stats["steps"] += 1
    if ref.snapshot(c) != before:
        ctx.violate("C05.mutated_arg", f"{op} changed its argument", sig)
    if ref.inputs(rs) != ref.inputs(net) and op != "insert_registers":
        ctx.violate("C05.inputs", f"{op}: inputs {ref.inputs(rs)} != {ref.inputs(net)}", sig)
    if ref.outputs(rs) != ref.outputs(net):
        ctx.violate("C05.outputs", f"{op}: outputs {ref.outputs(rs)} != {ref.outputs(net)}", sig)
    bad = ref.wiring_violations(rs, undriven=True)
    if bad:
        ctx.violate("C05.illegal_result", f"{op}: result is not well formed: {bad[:3]}", sig)
    if ref.is_cyclic(rs):
        ctx.violate("C05.cyclic_result", f"{op}: result is cyclic", sig)
    if op == "limit_fanin":
        m = max([len(v[1]) for v in rs["nodes"].values()] + [0])
        if m > k:
            ctx.violate("C05.fanin_bound", f"limit_fanin(k={k}) left a gate with {m} fan-in", sig)
        check_nodes = list(nodes)
        cmp_net = rs
    elif op == "limit_fanout":
        m = ref.max_fanout(rs)
        if m > k:
            ctx.violate("C05.fanout_bound", f"limit_fanout(k={k}) left a node with {m} loads", sig)
        check_nodes = list(nodes)
        cmp_net = rs
    elif op == "insert_registers":
        want_in = sorted(set(ref.inputs(net)) | ({"clk"} if "clk" not in nodes else set()))
        if ref.inputs(rs) != want_in:
            ctx.violate("C05.inputs", f"insert_registers: inputs {ref.inputs(rs)} != {want_in}", sig)
        cmp_net = {"name": rs["name"], "nodes": {n: [t, list(fi), o] for n, (t, fi, o) in rs["nodes"].items()}, "bbs": {}}
        for inst, v in net["bbs"].items():
            if inst not in rs["bbs"] or list(rs["bbs"][inst]) != list(v):
                ctx.violate("C05.reg_pins", f"pre-existing instance {inst} changed: {rs['bbs'].get(inst)}", sig)
        cmp_net["bbs"] = {i: v for i, v in net["bbs"].items()}
        for inst, (tname, ins, outs) in rs["bbs"].items():
            if inst in net["bbs"]:
                continue
            if tname != "ff":
                ctx.violate("C05.reg_type", f"instance {inst} has type {tname}", sig)
            d = cmp_net["nodes"].get(f"{inst}.d")
            q = f"{inst}.q"
            if d is None or q not in cmp_net["nodes"] or len(d[1]) != 1:
                ctx.violate("C05.reg_pins", f"instance {inst}: d/q pins not wired: {d}", sig)
            drv = d[1][0]
            loads = [n for n, v in cmp_net["nodes"].items() if q in v[1]]
            for l in loads:
                cmp_net["nodes"][l][1] = [drv if x == q else x for x in cmp_net["nodes"][l][1]]
            for p in ins + outs:
                cmp_net["nodes"].pop(f"{inst}.{p}", None)
        ctx.stats["flops_inserted"] += len(rs["bbs"]) - len(net["bbs"])
        check_nodes = list(nodes)
    else:
        check_nodes = ref.outputs(net)
        cmp_net = rs
    if any(v[0] in ("bb_output",) and n.split(".")[0] not in net["bbs"] for n, v in cmp_net["nodes"].items()) \
            and op == "insert_registers":
        ctx.violate("C05.reg_pins", "a flop pin survived making the flops transparent", sig)
    free_r = ref.free_nodes(cmp_net)
    extra = sorted(set(free_r) - set(free))
    if op == "insert_registers":
        extra = [x for x in extra if x != "clk"]
    if extra or set(free) - set(free_r):
        ctx.violate("C05.free_nodes", f"{op}: free signals changed: {sorted(free)} -> {sorted(free_r)}", sig)
    ta, _, full = ref.truth_tables(net, free)
    tb, _, _ = ref.truth_tables(cmp_net, free, fixed={"clk": 0} if op == "insert_registers" and "clk" not in nodes else None)
    topo = ref.topo_order(net)
    for n in sorted(check_nodes, key=topo.index):
        if n not in tb:
            ctx.violate("C05.node_missing", f"{op}: original node {n} is missing in the result", sig)
        if ta[n] != tb[n]:
            w = ref.witness(ta[n], tb[n], free)
            ctx.violate("C05.function", f"{op}(k={k}): node {n} ({nodes[n][0]}/{len(nodes[n][1])}) computes a different "
                        f"function, e.g. under {w}", dict(sig, type=nodes[n][0]))


def sig_key(sig):
    return (sig.get("op"), sig.get("exc"), sig.get("type"), sig.get("input_is_output"), sig.get("chained"), sig.get("bounded"))


def shrink(case):
    pre = case.get("pre", [])
    if pre:
        yield dict(case, pre=[])
        for i in range(len(pre)):
            yield dict(case, pre=pre[:i] + pre[i + 1:])
    for net in G.shrink_net(case["net"]):
        if net is not None and ref.is_lint_clean(net) and not ref.is_cyclic(net):
            yield dict(case, net=net)
    if case["k"] > 2:
        yield dict(case, k=case["k"] - 1)
    if case["stages"] > 1:
        yield dict(case, stages=case["stages"] - 1)


def fingerprint(case, r):
    p = r["probes"]
    op = case["op"]
    nontrivial = (op == "limit_fanin" and any(k.startswith("fanin>k") for k in p)) or \
                 (op == "limit_fanout" and any(k.startswith("fanout>k") for k in p)) or \
                 (op == "insert_registers" and r["stats"].get("flops_inserted", 0) > 0) or \
                 (op == "acyclic_unroll" and len(case["net"]["nodes"]) >= 3)
    return fp([ref.canon(case["net"]), op, case["k"], case["stages"], case.get("pre")]) if nontrivial else None


def sample(case, r):
    return {"net": case["net"], "pre": case.get("pre"), "op": case["op"], "k": case["k"], "stages": case["stages"]}
