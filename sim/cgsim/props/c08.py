"""C08 - model counting, signal probability and the approxmc hand-off are exact.

Explores: the solver's enumeration order across the blocking-clause loop (policy + PRNG), the hash
world (variable numbering, sampling-set order) and the process boundary to `approxmc` (the fake
child re-opens the DIMACS file by path with a fresh descriptor)."""
from cgsim import gen as G, ref, peers
from cgsim.core import fp, Skip, state_digest

ID = "C08"
QUICK = dict(worlds=16, runs=100, seconds=15)
THOROUGH = dict(worlds=256, runs=3000, seconds=30)
RULE = ("lint-clean circuits (0-10 startpoints, blackbox pins, constants, some cyclic) x assumption sets; "
        "distinct = canonical net + assumptions; non-trivial = some expected count is neither 0 nor 2^n")
PROBES = ["count_0", "count_full", "count_partial", "assume_internal", "bb_startpoint", "dimacs>8KiB", "cyclic",
          "cyclic_no_stable", "cyclic_multi_stable", "sigprob", "contradictory", "explicit_sampling_set"]
ASSUMPTIONS = ["<= 10 startpoints (12 in a few runs), only the default plain-clause DIMACS mode is judged",
               "the value approx_model_count returns is recorded as a probe, not judged",
               "signal_probability is judged for nodes whose cone is free of blackbox pins: for other nodes the library "
               "raises NotImplementedError (tx.subcircuit does not support blackboxes), a declared limitation that is "
               "neither judged nor counted as held"]


def gen(rng, tier):
    r = rng.random()
    if r < 0.2:
        net = G.gen_net(rng, n_inputs=(1, 3), n_gates=(2, 8), types=G.swarm_types(rng), max_arity=3, constants=0.2,
                        cyclic=True, parity_bias=0.2)
    elif r < 0.25:
        net = G.gen_net(rng, n_inputs=(3, 7), n_gates=(90, 150), types=G.ALL_GATES, max_arity=5, constants=0.3,
                        parity_bias=0.3)
    elif r < 0.32:
        net = G.gen_net(rng, n_inputs=(9, 11), n_gates=(3, 12), types=G.swarm_types(rng), max_arity=5, constants=0.2)
    else:
        net = G.gen_net(rng, n_inputs=(0 if rng.random() < 0.05 else 1, 6), n_gates=(1, 14), types=G.swarm_types(rng),
                        max_arity=rng.randint(2, 5), constants=0.35, bbs=rng.choice((0, 0, 1, 2)),
                        name_style=rng.choice(("plain", "underscore", "auxlike")), parity_bias=rng.choice((0.0, 0.4)))
    names = list(net["nodes"])
    free = ref.free_nodes(net)
    queries = []
    for _ in range(rng.randint(2, 5)):
        mode = rng.choice(("empty", "start", "internal", "mixed", "contradict"))
        if mode == "empty":
            q = {}
        elif mode == "start":
            q = {n: rng.random() < 0.5 for n in rng.sample(free, rng.randint(1, len(free)))} if free else {}
        elif mode == "internal":
            pool = [n for n in names if n not in free] or names
            q = {n: rng.random() < 0.5 for n in rng.sample(pool, rng.randint(1, min(3, len(pool))))}
        elif mode == "mixed":
            q = {n: rng.random() < 0.5 for n in rng.sample(names, rng.randint(1, min(4, len(names))))}
        else:
            # contradictory: a constant or a buffer pair forced to disagree
            q = {}
            for n, (t, fi, o) in net["nodes"].items():
                if t in ("0", "1"):
                    q[n] = (t == "0")
                    break
                if t == "buf" and fi:
                    q[n] = True
                    q[fi[0]] = False
                    break
        if q not in queries:
            queries.append(q)
    sp_nodes = rng.sample(names, min(len(names), 3))
    approx_sp = None
    if free and rng.random() < 0.25:
        # an explicit sampling set: a proper, non-empty subset of the startpoints
        approx_sp = rng.sample(free, rng.randint(1, len(free)))
    return {"net": net, "queries": queries, "sp_nodes": sp_nodes, "approx_sp": approx_sp,
            "peer": {"seed": rng.getrandbits(32), "policy": rng.choice(peers.SOLVER_POLICIES)}}


def run(case, ctx):
    cg = ctx.cg
    net = case["net"]
    if not ref.is_lint_clean(net):
        raise Skip("not lint clean")
    nodes = net["nodes"]
    names = sorted(nodes)
    cyc = ref.is_cyclic(net)
    sp = ref.startpoints(net)
    if len(sp) > 12 or (cyc and len(names) > 14):
        raise Skip("too large")
    c = ref.build(cg, net)
    sig0 = {"cyclic": cyc, "bb": bool(net["bbs"])}
    if cyc:
        ctx.probe("cyclic")
    if any(nodes[s][0] == "bb_output" for s in sp):
        ctx.probe("bb_startpoint")
    small = len(names) <= 14
    if small:
        mask, order, full = ref.consistency_mask(net)
        idx = {n: i for i, n in enumerate(order)}
        k = len(order)
        keep = {idx[s] for s in sp}
        if cyc:
            pm = ref.project_exists(mask, k, keep)
            nproj = ref.popcount(pm) >> (k - len(sp))
            if nproj < (1 << len(sp)):
                ctx.probe("cyclic_no_stable")
            if ref.popcount(mask) > nproj:
                ctx.probe("cyclic_multi_stable")
    else:
        tts, forder, full = ref.truth_tables(net, sp)

    def expected(A):
        if small:
            m = ref.constrain(mask, k, idx, A)
            m = ref.project_exists(m, k, keep)
            return ref.popcount(m) >> (k - len(sp))
        m = full
        for n, v in A.items():
            m &= tts[n] if v else (tts[n] ^ full)
        return ref.popcount(m)

    sub = case.get("approx_sp")
    if sub and (any(x not in sp for x in sub) or len(sp) > 10):
        sub = None

    def expected_sub(A):
        if small:
            m = ref.constrain(mask, k, idx, A)
            m = ref.project_exists(m, k, {idx[x] for x in sub})
            return ref.popcount(m) >> (k - len(sub))
        m = full
        for n, v in A.items():
            m &= tts[n] if v else (tts[n] ^ full)
        pos = [sp.index(x) for x in sub]
        seen = set()
        while m:
            low = m & -m
            i = low.bit_length() - 1
            m ^= low
            seen.add(tuple((i >> p) & 1 for p in pos))
        return len(seen)

    nontrivial = False
    for qi, A in enumerate(case["queries"]):
        A = {n: v for n, v in A.items() if n in nodes}
        want = expected(A)
        if any(n not in sp for n in A):
            ctx.probe("assume_internal")
        ctx.probe("count_0" if want == 0 else ("count_full" if want == (1 << len(sp)) else "count_partial"))
        if want == 0 and A:
            ctx.probe("contradictory")
        if 0 < want < (1 << len(sp)):
            nontrivial = True
        if want <= (300 if len(names) <= 40 else 48):
            got = ctx.call("C08.model_count_raises", sig0, cg.sat.model_count, c, dict(A))
            ctx.log("model_count", qi, got)
            ctx.stats["model_counts"] += 1
            if got != want:
                ctx.violate("C08.model_count", f"model_count(assumptions={A}) = {got}, expected {want} "
                            f"({len(sp)} startpoints)", dict(sig0, kind="model_count"))
        # approxmc hand-off
        ctx.peer.approxmc_calls.clear()
        want_a = want
        if sub:
            ctx.probe("explicit_sampling_set")
            want_a = expected_sub(A)
            ret = ctx.call("C08.approx_raises", sig0, cg.sat.approx_model_count, c, dict(A), startpoints=list(sub))
        else:
            ret = ctx.call("C08.approx_raises", sig0, cg.sat.approx_model_count, c, dict(A))
        calls = ctx.peer.approxmc_calls
        ctx.stats["approx_calls"] += 1
        n_lib_calls = 1 + bool(getattr(ctx, "twice", False)) + bool(getattr(ctx, "stale", False))   # history seams repeat the call
        if len(calls) != n_lib_calls:
            ctx.violate("C08.approx_calls", f"approxmc was run {len(calls)} times for {n_lib_calls} library call(s)", sig0)
        rec = calls[-1]
        if not rec["path_exists"] or rec["text"] is None:
            ctx.violate("C08.dimacs_missing", "the DIMACS file did not exist when approxmc was started",
                        dict(sig0, kind="dimacs_missing"))
        text = rec["text"]
        if len(text) > 8192:
            ctx.probe("dimacs>8KiB")
        try:
            nv, clauses, xors, ind = peers.parse_dimacs(text)
        except Exception as e:
            ctx.violate("C08.dimacs_syntax", f"DIMACS not parsable: {e}; head={text[:200]!r}", dict(sig0, kind="dimacs"))
        if ind is None:
            ctx.violate("C08.dimacs_no_sampling_set", f"no 'c ind' line; head={text[:200]!r}", dict(sig0, kind="dimacs"))
        if xors:
            ctx.violate("C08.dimacs_mode", "xor clauses in default mode", sig0)
        cnt = ref.count_projected(nv, clauses, ind, xors)
        ctx.log("dimacs", qi, len(text), fp(text), cnt, ret)
        if cnt != want_a:
            ctx.violate("C08.dimacs_count", f"DIMACS instance handed to approxmc has {cnt} models projected on its "
                        f"sampling set ({len(set(ind))} vars{', explicit startpoints ' + str(sub) if sub else ''}), expected "
                        f"{want_a}; assumptions={A}; bytes={len(text)}", dict(sig0, kind="dimacs_count"))
        if ret != want_a:
            ctx.probe("approx_return_mismatch")
    # signal probability (blackbox-free cones of acyclic circuits)
    if not cyc:
        tt_all, free, full2 = ref.truth_tables(net, sp)
        for n in case["sp_nodes"]:
            if n not in nodes:
                continue
            cone = ref.transitive_fanin(net, [n]) | {n}
            if any(nodes[x][0] in ("bb_input", "bb_output") for x in cone):
                continue
            spn = [s for s in sp if s in cone]
            if not spn:
                ctx.probe("sigprob_constant_cone")   # no startpoint in the cone: the node is a constant, probability 0 or 1
            want_p = ref.popcount(tt_all[n]) / (1 << len(sp))
            got_p = ctx.call("C08.sigprob_raises", sig0, cg.props.signal_probability, c, n, approx=False)
            ctx.probe("sigprob")
            ctx.log("sigprob", n, got_p)
            if abs(got_p - want_p) > 1e-12:
                ctx.violate("C08.signal_probability", f"signal_probability({n}) = {got_p}, expected {want_p}",
                            dict(sig0, kind="sigprob"))
    ctx.stats["steps"] += len(case["queries"])
    if nontrivial:
        ctx.stats["nontrivial"] += 1
    ctx.log("state", state_digest(c))


def sig_key(sig):
    return (sig.get("kind"), sig.get("exc"))


def shrink(case):
    qs = case["queries"]
    if len(qs) > 1:
        for i in range(len(qs)):
            yield dict(case, queries=[qs[i]])
    if case.get("approx_sp"):
        yield dict(case, approx_sp=None)
    if case["sp_nodes"]:
        yield dict(case, sp_nodes=[])
        for n in case["sp_nodes"]:
            yield dict(case, sp_nodes=[n], queries=[])
    for net in G.shrink_net(case["net"]):
        if net is None or not ref.is_lint_clean(net):
            continue
        nn = set(net["nodes"])
        yield dict(case, net=net, queries=[{k: v for k, v in q.items() if k in nn} for q in qs],
                   sp_nodes=[n for n in case["sp_nodes"] if n in nn],
                   approx_sp=[n for n in (case.get("approx_sp") or []) if n in nn and net["nodes"][n][0] in ("input", "bb_output")] or None)
    for i, q in enumerate(qs):
        for k in list(q):
            q2 = dict(q)
            del q2[k]
            yield dict(case, queries=qs[:i] + [q2] + qs[i + 1:])
    if case["peer"].get("policy") != "inputs_first":
        yield dict(case, peer=dict(case["peer"], policy="inputs_first"))


def fingerprint(case, r):
    if r["stats"].get("nontrivial"):
        return fp([ref.canon(case["net"]), case["queries"]])
    return None


def sample(case, r):
    net = case["net"]
    if len(net["nodes"]) > 25:
        net = {"name": net["name"], "n_nodes": len(net["nodes"]), "note": "large net elided"}
    return {"net": net, "queries": case["queries"], "sp_nodes": case["sp_nodes"], "policy": case["peer"].get("policy")}
