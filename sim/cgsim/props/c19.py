"""C19 - transforms, queries and writers never modify or alias their argument.

Workload: a history over a POOL of circuits: *call* any public function of tx / props / sat /
io writers / lint or a read-only Circuit method on pool members (results join the pool), *edit* any
pool member through the public API and through raw attributes.  Faults: arguments chosen to make
the callee raise, and peer faults injected at the k-th interaction (solver error, pysat
unimportable, approxmc missing / crashing / garbage, SimFS open and write errors).
Oracle: deep snapshot of EVERY pool member before = after each call (returned or raised); after an
edit of one member every other member is unchanged."""
import copy

from cgsim import gen as G, ref, peers
from cgsim.core import fp, Skip, state_digest

ID = "C19"
QUICK = dict(worlds=16, runs=400, seconds=15)
THOROUGH = dict(worlds=256, runs=3000, seconds=30)
RULE = ("seeded histories of 6-25 call/edit steps over a pool of circuits; distinct = initial nets + step list; "
        "non-trivial = at least 3 calls returned, 1 raised and 1 edit was followed by a snapshot comparison")
ASSUMPTIONS = ["sharing of BlackBox *type* objects between registries is by design and not flagged",
               "networkx's cached views in graph.__dict__ are not part of the snapshot",
               "yosys/genus/dc are absent: syn/aig/visualize only run their tool-missing paths"]
TIME_UNIT = "API calls"

FUNCS = [
    "tx.strip_io", "tx.strip_outputs", "tx.strip_inputs", "tx.strip_blackboxes", "tx.relabel", "tx.subcircuit",
    "tx.syn", "tx.aig", "tx.ternary", "tx.miter", "tx.sequential_unroll", "tx.unroll", "tx.sensitization_transform",
    "tx.sensitivity_transform", "tx.limit_fanin", "tx.limit_fanout", "tx.acyclic_unroll", "tx.supergates",
    "tx.insert_registers",
    "props.influence", "props.avg_sensitivity", "props.sensitivity", "props.sensitize", "props.signal_probability",
    "props.levelize",
    "sat.cnf", "sat.solve", "sat.construct_solver", "sat.model_count", "sat.approx_model_count",
    "io.circuit_to_verilog", "io.circuit_to_bench", "io.to_file", "utils.lint", "utils.visualize",
    "m.copy", "m.type", "m.filter_type", "m.nodes", "m.edges", "m.fanin", "m.fanout", "m.transitive_fanin",
    "m.transitive_fanout", "m.fanout_depth", "m.fanin_depth", "m.paths", "m.inputs", "m.is_output", "m.outputs", "m.io",
    "m.startpoints", "m.endpoints", "m.reconvergent_fanout_nodes", "m.has_reconvergent_fanout", "m.is_cyclic",
    "m.uid", "m.kcuts", "m.topo_sort", "m.contains_len_iter",
]
PROBES = [f"{f}:ret" for f in FUNCS if f not in ("tx.syn", "tx.aig", "utils.visualize")] + \
         ["edit_then_compare", "result_edited", "arg_edited_after_call"] + [f"fault:{k}" for k in peers.FAULT_KINDS]
SOLVER_FUNCS = {"props.influence", "props.avg_sensitivity", "props.sensitivity", "props.sensitize",
                "props.signal_probability", "sat.cnf", "sat.solve", "sat.construct_solver", "sat.model_count",
                "sat.approx_model_count"}
HEAVY = {"props.influence", "props.avg_sensitivity", "props.sensitivity", "props.signal_probability",
         "sat.model_count", "m.paths", "m.kcuts", "tx.supergates", "tx.sensitivity_transform", "sat.approx_model_count",
         "m.reconvergent_fanout_nodes", "m.has_reconvergent_fanout", "tx.unroll", "tx.sequential_unroll"}


def gen(rng, tier):
    nets = []
    for i in range(rng.randint(1, 3)):
        r = rng.random()
        if r < 0.2:
            net = G.gen_net(rng, n_inputs=(1, 3), n_gates=(2, 7), types=G.swarm_types(rng), max_arity=3, cyclic=True,
                            name=f"c{i}")
        elif r < 0.5:
            net = G.gen_net(rng, n_inputs=(1, 4), n_gates=(1, 8), types=G.swarm_types(rng), max_arity=3, bbs=2,
                            name=f"c{i}", bb_types=[("ff", ["clk", "d"], ["q"])] if rng.random() < 0.6 else None)
        else:
            net = G.gen_net(rng, n_inputs=(1, 5), n_gates=(1, 9), types=G.swarm_types(rng), max_arity=4,
                            constants=0.3, name=f"c{i}", input_outputs=0.15)
        if rng.random() < 0.15:
            # escaped Verilog identifiers (bus bits, hierarchical names): legal node names that writers treat specially
            plain = [n for n in net["nodes"] if "." not in n]
            mp = {}
            for j, n in enumerate(rng.sample(plain, min(len(plain), rng.randint(1, 3)))):
                mp[n] = "\\" + rng.choice(("a", "bus", "y", "n1")) + rng.choice(("[0]", "[1]", "[3]", "/z", "#1")) + str(j)
            net = G.rename(net, mp)
        nets.append(net)
    steps = []
    weights = [rng.uniform(0.3, 1.5) for _ in FUNCS]
    faults = {}
    if rng.random() < 0.45:
        for kind in rng.sample(list(peers.FAULT_KINDS), rng.randint(1, 3)):
            faults[kind] = sorted({rng.randrange(0, 6) for _ in range(rng.randint(1, 2))})
    for _ in range(rng.randint(6, 25)):
        if rng.random() < 0.3:
            steps.append(["edit", rng.randrange(16), rng.choice(
                ("add", "remove", "connect", "disconnect", "set_output", "attr_type", "attr_output", "registry_add",
                 "registry_pop", "name", "set_type", "relabel", "graph_attr")), rng.randrange(64), rng.randrange(64)])
        else:
            f = rng.choices(FUNCS, weights=weights)[0]
            steps.append(["call", f, rng.randrange(16), rng.randrange(16),
                          [rng.randrange(64) for _ in range(4)],
                          {"flag": rng.random() < 0.5, "flag2": rng.random() < 0.5, "k": rng.choice((1, 2, 2, 3, 4)),
                           "n": rng.choice((0, 1, 2, 3)), "bad": rng.random() < 0.12}])
    return {"nets": nets, "steps": steps, "sparse": [rng.random() < 0.25 for _ in nets],
            "peer": {"seed": rng.getrandbits(32), "policy": rng.choice(peers.SOLVER_POLICIES), "faults": faults}}


def _node(c, k, bad=False):
    if bad:
        return "no_such_node"
    names = sorted(c.graph.nodes, key=str)
    return names[k % len(names)] if names else "no_such_node"


def _nodes(c, ks, bad=False):
    out = []
    for k in ks:
        n = _node(c, k)
        if n not in out:
            out.append(n)
    if bad:
        out.append("no_such_node")
    return out


def do_call(cg, f, c, other, ks, p):
    bad = p["bad"]
    flag, flag2, k, n = p["flag"], p["flag2"], p["k"], p["n"]
    tx, props, sat = cg.tx, cg.props, cg.sat
    if f == "tx.strip_io":
        return tx.strip_io(c)
    if f == "tx.strip_outputs":
        return tx.strip_outputs(c)
    if f == "tx.strip_inputs":
        return tx.strip_inputs(c)
    if f == "tx.strip_blackboxes":
        pins = sorted({x.split(".")[-1] for x in c.graph.nodes if "." in str(x)})
        return tx.strip_blackboxes(c, ignore_pins=(pins[: ks[0] % (len(pins) + 1)] or None) if flag else None)
    if f == "tx.relabel":
        a = _node(c, ks[0], bad)
        return tx.relabel(c, {a: f"renamed_{ks[1]}"})
    if f == "tx.subcircuit":
        return tx.subcircuit(c, _nodes(c, ks, bad), modify_io=flag)
    if f == "tx.syn":
        return tx.syn(c, engine=("yosys", "genus", "dc", "foo")[ks[0] % 4], suppress_output=True)
    if f == "tx.aig":
        return tx.aig(c)
    if f == "tx.ternary":
        return tx.ternary(c)
    if f == "tx.miter":
        return tx.miter(c, other if flag else None)
    if f == "tx.sequential_unroll":
        bbs = sorted(c.blackboxes)
        if bbs and not bad:
            bb = c.blackboxes[bbs[0]]
            ins_, outs_ = sorted(bb.inputs()), sorted(bb.outputs())
            d = "d" if "d" in ins_ else (ins_[ks[0] % len(ins_)] if ins_ else "d")
            q = "q" if "q" in outs_ else (outs_[ks[1] % len(outs_)] if outs_ else "q")
            if ks[0] % 7 == 0 and ins_:
                d = ins_[ks[0] % len(ins_)]
        else:
            d, q = "d", "q"
        return tx.sequential_unroll(c, n, d, q, ignore_pins=["clk"] if flag else None, add_flop_outputs=flag2,
                                    initial_values=(None, "0", "1")[ks[2] % 3], remove_unloaded=ks[3] % 2 == 0)
    if f == "tx.unroll":
        outs = sorted(c.outputs())
        ins = sorted(c.inputs())
        sio = {}
        if outs and ins and not bad:
            sio = {outs[ks[0] % len(outs)]: ins[ks[1] % len(ins)]}
        elif bad:
            sio = {"no_such_node": "nope"}
        return tx.unroll(c, n, sio)
    if f == "tx.sensitization_transform":
        return tx.sensitization_transform(c, _node(c, ks[0], bad), endpoints=_nodes(c, ks[1:2]) if flag else None)
    if f == "tx.sensitivity_transform":
        return tx.sensitivity_transform(c, _node(c, ks[0], bad))
    if f == "tx.limit_fanin":
        return tx.limit_fanin(c, k)
    if f == "tx.limit_fanout":
        return tx.limit_fanout(c, k)
    if f == "tx.acyclic_unroll":
        return tx.acyclic_unroll(c)
    if f == "tx.supergates":
        return tx.supergates(c, construct_supercircuit=flag)
    if f == "tx.insert_registers":
        return tx.insert_registers(c, n)
    if f == "props.influence":
        return props.influence(c, _node(c, ks[0], bad), supergates=flag and ks[1] % 3 == 0, approx=flag2)
    if f == "props.avg_sensitivity":
        return props.avg_sensitivity(c, _node(c, ks[0], bad), approx=flag2)
    if f == "props.sensitivity":
        return props.sensitivity(c, _node(c, ks[0], bad))
    if f == "props.sensitize":
        return props.sensitize(c, _node(c, ks[0], bad), {_node(c, ks[1]): flag} if flag2 else None)
    if f == "props.signal_probability":
        return props.signal_probability(c, _node(c, ks[0], bad), approx=flag)
    if f == "props.levelize":
        return props.levelize(c)
    if f == "sat.cnf":
        return sat.cnf(c)
    if f == "sat.solve":
        return sat.solve(c, {x: (i + ks[3]) % 2 == 0 for i, x in enumerate(_nodes(c, ks[:2], bad))} if flag else None)
    if f == "sat.construct_solver":
        return sat.construct_solver(c, {_node(c, ks[0], bad): flag})
    if f == "sat.model_count":
        return sat.model_count(c, {_node(c, ks[0], bad): flag} if flag2 else None)
    if f == "sat.approx_model_count":
        return sat.approx_model_count(c, {_node(c, ks[0], bad): flag} if flag2 else {}, use_xor_clauses=ks[1] % 3 == 0,
                                      log_file="/tmp/.cgsim_unused_log" if False else None)
    if f == "io.circuit_to_verilog":
        return cg.io.circuit_to_verilog(c, behavioral=flag)
    if f == "io.circuit_to_bench":
        return cg.io.circuit_to_bench(c)
    if f == "io.to_file":
        return cg.io.to_file(c, f"/sim/out{ks[0] % 3}." + ("v" if flag else "bench"),
                             fmt=("verilog", "bench", "weird")[ks[1] % 3 if bad else (0 if flag else 1)], behavioral=flag2)
    if f == "utils.lint":
        return cg.lint(c, fail_fast=flag, unloaded=flag2, undriven=ks[0] % 2 == 0, single_input_gates=ks[1] % 2 == 0)
    if f == "utils.visualize":
        return cg.visualize(c, "/sim/pic.png")
    a = _node(c, ks[0], bad)
    b = _nodes(c, ks[:3], bad)
    if f == "m.copy":
        return c.copy()
    if f == "m.type":
        return c.type(a if flag else b)
    if f == "m.filter_type":
        return c.filter_type(["and", "input", "bb_input"] if not bad else "weird")
    if f == "m.nodes":
        return c.nodes()
    if f == "m.edges":
        return c.edges()
    if f == "m.fanin":
        return c.fanin(a if flag else b)
    if f == "m.fanout":
        return c.fanout(a if flag else b)
    if f == "m.transitive_fanin":
        return c.transitive_fanin(a if flag else b)
    if f == "m.transitive_fanout":
        return c.transitive_fanout(a if flag else b)
    if f == "m.fanout_depth":
        return c.fanout_depth(a if flag else b, maximum=flag2)
    if f == "m.fanin_depth":
        return c.fanin_depth(a if flag else b, maximum=flag2)
    if f == "m.paths":
        return list(c.paths(a, _node(c, ks[1]), cutoff=6))
    if f == "m.inputs":
        return c.inputs()
    if f == "m.is_output":
        return c.is_output(a)
    if f == "m.outputs":
        return c.outputs()
    if f == "m.io":
        return c.io()
    if f == "m.startpoints":
        return c.startpoints(b if flag else None)
    if f == "m.endpoints":
        return c.endpoints(b if flag else None)
    if f == "m.reconvergent_fanout_nodes":
        return list(c.reconvergent_fanout_nodes())
    if f == "m.has_reconvergent_fanout":
        return c.has_reconvergent_fanout()
    if f == "m.is_cyclic":
        return c.is_cyclic()
    if f == "m.uid":
        return c.uid(a, blocked={f"{a}_0"} if flag else None)
    if f == "m.kcuts":
        return c.kcuts(a, k)
    if f == "m.topo_sort":
        return list(c.topo_sort())
    if f == "m.contains_len_iter":
        return (a in c, len(c), list(iter(c)))
    raise RuntimeError(f"unknown function {f}")


def do_edit(cg, c, kind, k1, k2):
    a = _node(c, k1)
    b = _node(c, k2)
    if kind == "add":
        c.add(f"edit_{k1}", ("and", "buf", "input", "xor")[k2 % 4], uid=True, fanout=None)
    elif kind == "remove":
        c.remove(a)
    elif kind == "connect":
        if a in c.graph and b in c.graph:
            c.graph.add_edge(a, b)
    elif kind == "disconnect":
        es = sorted(c.graph.edges)
        if es:
            c.disconnect(*es[k1 % len(es)])
    elif kind == "set_output":
        c.set_output(a, not c.is_output(a))
    elif kind == "attr_type":
        c.graph.nodes[a]["type"] = "nor" if c.graph.nodes[a].get("type") != "nor" else "or"
    elif kind == "attr_output":
        c.graph.nodes[a]["output"] = not c.graph.nodes[a].get("output", False)
    elif kind == "registry_add":
        c.blackboxes[f"edit_bb_{k1}"] = cg.BlackBox("edited", ["a"], ["y"])
    elif kind == "registry_pop":
        if c.blackboxes:
            c.blackboxes.pop(sorted(c.blackboxes)[k1 % len(c.blackboxes)])
        else:
            c.blackboxes["edit_only"] = cg.BlackBox("edited", ["a"], ["y"])
    elif kind == "name":
        c.name = f"{c.name}_e{k1}"
    elif kind == "set_type":
        c.set_type(a, ("and", "or", "buf")[k2 % 3])
    elif kind == "relabel":
        c.relabel({a: f"rl_{k1}_{k2}"})
    elif kind == "graph_attr":
        c.graph.graph[f"edit{k1}"] = k2


def circuits_in(cg, res):
    out = []
    if isinstance(res, cg.Circuit):
        out.append(res)
    elif isinstance(res, (tuple, list)):
        for x in res:
            out.extend(circuits_in(cg, x))
    elif isinstance(res, dict):
        for x in res.values():
            if isinstance(x, cg.Circuit):
                out.append(x)
    return out


def run(case, ctx):
    cg = ctx.cg
    pool = []
    prov = []     # provenance: description of where the member came from
    for net in case["nets"]:
        if ref.wiring_violations(net):
            raise Skip("precondition")
        pool.append(ref.build(cg, net, sparse=bool(case.get("sparse")) and case["sparse"][len(pool) % len(case["sparse"])]))
        prov.append("initial")
    n_ret = n_raise = n_edit = 0
    last_call_args = set()
    results_idx = set()
    for step, st in enumerate(case["steps"]):
        snaps = [ref.deep_snapshot(x) for x in pool]
        ctx.stats["calls"] += 1
        if st[0] == "call":
            _, f, i, j, ks, p = st
            i %= len(pool)
            j %= len(pool)
            c, other = pool[i], pool[j]
            size = len(c) + (len(other) if f == "tx.miter" and p["flag"] else 0)
            nsp = sum(1 for x in c.graph.nodes if c.graph.nodes[x].get("type") in ("input", "bb_output"))
            if size > 150 or (f in HEAVY and (size > 45 or nsp > 7)) or (f in SOLVER_FUNCS and size > 90):
                ctx.log(step, "skip-heavy", f)
                ctx.probe("skipped_heavy")
                continue
            if f == "tx.ternary" and size > 60:
                continue
            if f == "m.kcuts" and (size > 25 or p["k"] > 3):
                ctx.probe("skipped_heavy")
                continue
            exc = None
            res = None
            try:
                res = do_call(cg, f, c, other, ks, p)
            except Exception as e:
                exc = e
            ctx.log(step, "call", f, i, j, "ret" if exc is None else type(exc).__name__,
                    [state_digest(x) for x in circuits_in(cg, res)][:3], res if isinstance(res, str) and len(res) < 400 else None)
            ctx.probe(f"{f}:{'ret' if exc is None else 'raise'}")
            if exc is None:
                n_ret += 1
            else:
                n_raise += 1
            sig = {"func": f, "outcome": "ret" if exc is None else type(exc).__name__}
            for idx, x in enumerate(pool):
                if ref.deep_snapshot(x) != snaps[idx]:
                    role = "argument" if idx in (i, j if (f == "tx.miter" and p["flag"]) else i) else "bystander"
                    ctx.violate("C19.mutated", f"step {step}: {f} ({sig['outcome']}) changed pool member {idx} ({role}, "
                                f"{prov[idx]}): {_diff(snaps[idx], ref.deep_snapshot(x))}", dict(sig, role=role))
            last_call_args = {i}
            for r_c in circuits_in(cg, res):
                if any(r_c is x for x in pool):
                    k = next(q for q, x in enumerate(pool) if x is r_c)
                    ctx.violate("C19.returned_argument", f"step {step}: {f} returned the very object it was given "
                                f"(pool member {k}) instead of a new circuit", dict(sig, role="identity"))
                for idx, x in enumerate(pool):
                    if r_c.graph is x.graph:
                        ctx.violate("C19.shared_graph", f"step {step}: result of {f} shares its graph object with pool "
                                    f"member {idx}", dict(sig, role="graph"))
                    if r_c.blackboxes is x.blackboxes:
                        ctx.violate("C19.shared_registry", f"step {step}: result of {f} shares its blackbox registry dict "
                                    f"with pool member {idx}", dict(sig, role="registry"))
                if len(pool) < 10:
                    pool.append(r_c)
                    prov.append(f"result of {f} on member {i} at step {step}")
                    results_idx.add(len(pool) - 1)
            if isinstance(res, dict) and exc is None:
                try:
                    res.clear()     # editing a returned container must not reach any circuit
                except Exception:
                    pass
            elif isinstance(res, tuple) and exc is None:
                for x in res:
                    if isinstance(x, dict):
                        x.clear()
                    elif isinstance(x, list):
                        del x[:]
            elif isinstance(res, (set, list)) and exc is None and not circuits_in(cg, res):
                try:
                    res.clear()
                except Exception:
                    pass
            for idx, x in enumerate(pool[: len(snaps)]):
                if ref.deep_snapshot(x) != snaps[idx]:
                    ctx.violate("C19.container_alias", f"step {step}: editing the container returned by {f} changed pool "
                                f"member {idx}", dict(sig, role="container"))
        else:
            _, i, kind, k1, k2 = st
            i %= len(pool)
            try:
                do_edit(cg, pool[i], kind, k1, k2)
                ok = True
            except Exception as e:
                ok = type(e).__name__
            n_edit += 1
            ctx.log(step, "edit", i, kind, ok)
            ctx.probe("edit_then_compare")
            if i in results_idx:
                ctx.probe("result_edited")
            if i in last_call_args:
                ctx.probe("arg_edited_after_call")
            for idx, x in enumerate(pool):
                if idx == i or x is pool[i]:
                    continue
                if ref.deep_snapshot(x) != snaps[idx]:
                    ctx.violate("C19.alias", f"step {step}: editing pool member {i} ({prov[i]}) via {kind} changed "
                                f"member {idx} ({prov[idx]}): {_diff(snaps[idx], ref.deep_snapshot(x))}",
                                {"func": (prov[i] + " " + prov[idx]).split("result of ")[-1].split(" ")[0], "role": "alias",
                                 "edit": kind})
    for kind, n in ctx.peer.fired.items():
        ctx.probe(f"fault:{kind}", n)
    if n_ret >= 3 and n_raise >= 1 and n_edit >= 1:
        ctx.stats["nontrivial"] += 1


def _diff(a, b):
    parts = []
    names = ("name", "nodes", "edges", "registry", "graph attrs")
    for nm, x, y in zip(names, a, b):
        if x != y:
            if isinstance(x, tuple):
                sx, sy = set(x), set(y)
                parts.append(f"{nm}: -{sorted(sx - sy, key=repr)[:3]} +{sorted(sy - sx, key=repr)[:3]}")
            else:
                parts.append(f"{nm}: {x!r} -> {y!r}")
    return "; ".join(parts)[:600]


def sig_key(sig):
    return (sig.get("func"), sig.get("role"))


def shrink(case):
    steps = case["steps"]
    n = len(steps)
    chunk = n // 2
    while chunk >= 1:
        for i in range(0, n, chunk):
            s2 = steps[:i] + steps[i + chunk:]
            if s2 and len(s2) < n:
                yield dict(case, steps=s2)
        chunk //= 2
    if len(case["nets"]) > 1:
        for i in range(len(case["nets"])):
            yield dict(case, nets=case["nets"][:i] + case["nets"][i + 1:])
    for i, net in enumerate(case["nets"]):
        for s in G.shrink_net(net):
            if s is not None and not ref.wiring_violations(s) and s["nodes"]:
                yield dict(case, nets=case["nets"][:i] + [s] + case["nets"][i + 1:])
    if case["peer"].get("faults"):
        yield dict(case, peer=dict(case["peer"], faults={}))
        for k in case["peer"]["faults"]:
            yield dict(case, peer=dict(case["peer"], faults={a: b for a, b in case["peer"]["faults"].items() if a != k}))


def fingerprint(case, r):
    if r["stats"].get("nontrivial"):
        return fp([[ref.canon(n) for n in case["nets"]], case["steps"], case["peer"].get("faults")])
    return None


def sample(case, r):
    return {"nets": case["nets"], "steps": case["steps"][:10], "n_steps": len(case["steps"]),
            "faults": case["peer"].get("faults")}
