"""C04 - the miter output is 1 exactly when the compared circuits differ.

Explores: hash world (iteration of the startpoint/endpoint sets, add_subcircuit order) and the
solver's model choice for the final equivalence query."""
import copy

from cgsim import gen as G, ref
from cgsim.core import fp, Skip, state_digest

ID = "C04"
QUICK = dict(worlds=16, runs=800, seconds=15)
THOROUGH = dict(worlds=256, runs=4000, seconds=30)
RULE = ("pairs of blackbox-free lint-clean circuits (copy / self / reference-side restructured / one gate mutated / "
        "unrelated sharing io names) x startpoint and endpoint subsets; distinct = canonical pair + subsets; "
        "non-trivial = at least one compared endpoint depends on a tied startpoint")
PROBES = ["single_endpoint", "untied_startpoint", "pair:restructured", "pair:mutated", "pair:self", "pair:copy",
          "pair:unrelated", "pair:cut", "pair:empty", "differs_rarely", "equivalent", "different", "repeated_call_same_objects", "no_common_endpoint", "tie_nothing", "nets_named_like_miter_nodes"]
ASSUMPTIONS = ["<= 5 shared + <= 2 private startpoints per side, <= 12 gates per circuit",
               "node names do not start with c0_/c1_/dif_ and are not 'sat' (default naming)"]


def restructure(rng, net):
    """Reference-side equivalent rewrites (NOT the library's transforms)."""
    net = copy.deepcopy(net)
    nodes = net["nodes"]
    cnt = [0]

    def fresh(base):
        cnt[0] += 1
        n = f"rs{cnt[0]}_{base}"
        while n in nodes:
            cnt[0] += 1
            n = f"rs{cnt[0]}_{base}"
        return n

    for n in list(nodes):
        t, fi, o = nodes[n]
        r = rng.random()
        if t in ("and", "or", "nand", "nor") and len(fi) >= 2 and r < 0.4:
            # De Morgan: and(a,b) = nor(~a,~b) ; or = nand(~a,~b); nand = or(~a..); nor = and(~a..)
            inv = []
            for f in fi:
                m = fresh("n")
                nodes[m] = ["not", [f], False]
                inv.append(m)
            nodes[n] = [{"and": "nor", "or": "nand", "nand": "or", "nor": "and"}[t], inv, o]
        elif t in ("xor", "xnor", "and", "or") and len(fi) >= 3 and r < 0.7:
            # regroup two operands behind a partial gate
            a, b = fi[0], fi[1]
            m = fresh("p")
            nodes[m] = [{"xnor": "xor"}.get(t, t), [a, b], False]
            nodes[n] = [t, [m] + fi[2:], o]
        elif t in ("buf", "not") and r < 0.3:
            # double negation in front
            f = fi[0]
            if nodes[f][0] != "bb_output":
                m1, m2 = fresh("d"), fresh("d")
                nodes[m1] = ["not", [f], False]
                nodes[m2] = ["not", [m1], False]
                nodes[n] = [t, [m2], o]
        elif t in ref.MULTI and r < 0.85 and fi:
            # buffer insertion on one operand
            f = fi[0]
            m = fresh("b")
            nodes[m] = ["buf", [f], False]
            nodes[n] = [t, [m] + fi[1:], o]
    # re-order so that fan-in is defined before use is irrelevant for dict-based nets
    return net


def mutate(rng, net):
    net = copy.deepcopy(net)
    gates = [n for n, (t, fi, o) in net["nodes"].items() if t in ref.GATES]
    if not gates:
        return net
    wide = [n for n in gates if net["nodes"][n][0] in ("and", "nor", "or", "nand") and len(net["nodes"][n][1]) >= 2]
    if wide and rng.random() < 0.4:
        # a difference that shows for few valuations only: AND the output cone with a wide conjunction of inputs
        ins = ref.inputs(net)
        outs = [o for o in ref.outputs(net) if net["nodes"][o][0] in ref.GATES]
        if len(ins) >= 3 and outs:
            o = rng.choice(outs)
            t, fi, flag = net["nodes"][o]
            k = "rare_" + o
            inner = "rarein_" + o
            if k not in net["nodes"] and inner not in net["nodes"]:
                net["nodes"][k] = ["and", list(ins), False]
                net["nodes"][inner] = [t, list(fi), False]
                net["nodes"][o] = ["xor", [inner, k], flag]
                return net
    n = rng.choice(gates)
    t, fi, o = net["nodes"][n]
    if t in ("buf", "not"):
        net["nodes"][n][0] = "not" if t == "buf" else "buf"
    else:
        net["nodes"][n][0] = rng.choice([x for x in ref.MULTI if x != t])
    return net


def gen(rng, tier):
    big = tier == "thorough" and rng.random() < 0.3
    c0 = G.gen_net(rng, n_inputs=(3, 6) if big else (1, 5), n_gates=(8, 16) if big else (1, 10), types=G.swarm_types(rng), max_arity=rng.randint(2, 4),
                   constants=0.2, name_style=rng.choice(("plain", "plain", "underscore")), min_outputs=1,
                   input_outputs=0.05)
    kind = rng.choices(("copy", "self", "restructured", "mutated", "unrelated", "cut"), weights=[2, 2, 4, 4, 2, 2])[0]
    if kind == "copy":
        c1 = copy.deepcopy(c0)
    elif kind == "self":
        c1 = None
    elif kind == "restructured":
        c1 = restructure(rng, c0)
    elif kind == "mutated":
        c1 = mutate(rng, restructure(rng, c0) if rng.random() < 0.4 else c0)
    elif kind == "cut":
        # a cone cut at an internal net: that net is a primary input of one circuit and a gate of the other
        full = c0
        cut = copy.deepcopy(c0)
        gates = [n for n, v in cut["nodes"].items() if v[0] in ref.GATES]
        g = rng.choice(gates)
        cut["nodes"][g] = ["input", [], cut["nodes"][g][2]]
        if rng.random() < 0.5:
            c0, c1 = cut, full
        else:
            c0, c1 = full, cut
    else:
        c1 = G.gen_net(rng, n_inputs=(1, 4), n_gates=(1, 8), types=G.swarm_types(rng), max_arity=3, constants=0.2,
                       min_outputs=1)
        # share some io names with c0
        ins0, ins1 = ref.inputs(c0), ref.inputs(c1)
        outs0 = [o for o in ref.outputs(c0) if c0["nodes"][o][0] != "input"]
        outs1 = [o for o in ref.outputs(c1) if c1["nodes"][o][0] != "input"]
        mp = {}
        for a, b in zip(rng.sample(ins1, len(ins1)), rng.sample(ins0, len(ins0))):
            if rng.random() < 0.7 and b not in c1["nodes"]:
                mp[a] = b
        for a, b in zip(rng.sample(outs1, len(outs1)), rng.sample(outs0, len(outs0))):
            if b not in c1["nodes"] and b not in mp.values():
                mp[a] = b
        c1 = G.rename(c1, mp)
        if rng.random() < 0.5:
            priv = [n for n in ref.inputs(c1) if n not in c0["nodes"]]
            _ = priv
    if rng.random() < 0.02:
        kind, c1 = "empty", {"name": "nothing", "nodes": {}, "bbs": {}}     # a circuit without any node as second operand
    if rng.random() < 0.12:
        # internal nets called like the nodes the miter creates (c0_<n> next to n: the names of an unrolled or flattened
        # design): perfectly legal, only a TIED STARTPOINT of such a name can clash with the miter's own nodes
        gates0 = [n for n, v in c0["nodes"].items() if v[0] in ref.GATES]
        mp = {}
        for g in rng.sample(gates0, min(len(gates0), rng.randint(1, 2))):
            o = rng.choice(sorted(c0["nodes"]))
            new = rng.choice((f"c0_{o}", f"c1_{o}", f"dif_{o}", "sat", f"c0_c0_{o}"))
            if new not in c0["nodes"] and (c1 is None or new not in c1["nodes"]) and new not in mp.values():
                mp[g] = new
        if mp:
            c0 = G.rename(c0, mp)
            if c1 is not None:
                c1 = G.rename(c1, {k: v for k, v in mp.items() if k in c1["nodes"]})
    other = c1 if c1 is not None else c0
    sp_shared = sorted(set(ref.startpoints(c0)) & set(ref.startpoints(other)))
    ep_shared = sorted(set(ref.outputs(c0)) & set(ref.outputs(other)))
    sps = eps = None
    if sp_shared and rng.random() < 0.4:
        sps = rng.sample(sp_shared, rng.randint(1, len(sp_shared)))
    elif rng.random() < 0.08:
        sps = []          # an explicit choice: tie nothing, every startpoint of either copy is independent
    r = rng.random()
    if ep_shared and r < 0.3:
        eps = [rng.choice(ep_shared)]
    elif ep_shared and r < 0.5:
        eps = rng.sample(ep_shared, rng.randint(1, len(ep_shared)))
    elif r < 0.6:
        both = sorted(n for n in c0["nodes"] if n in other["nodes"])
        if both:
            eps = rng.sample(both, rng.randint(1, min(3, len(both))))
    return {"c0": c0, "c1": c1, "kind": kind, "startpoints": sps, "endpoints": eps,
            "repeat": rng.random() < 0.3, "as_list": rng.random() < 0.3,
            "arg_form": rng.choice((None, None, None, None, "str", "dup", "iter")),
            "peer": {"seed": rng.getrandbits(32), "policy": rng.choice(("inputs_first", "random", "inputs_last",
                                                                        "prefer_true", "prefer_false"))}}


def _bad_name(n):
    return n.startswith(("c0_", "c1_", "dif_")) or n == "sat"


def run(case, ctx):
    cg = ctx.cg
    n0 = case["c0"]
    n1 = case["c1"] if case["c1"] is not None else n0
    for net in (n0, n1):
        if not ref.is_lint_clean(net) or ref.is_cyclic(net) or net["bbs"]:
            raise Skip("precondition")
    sp0, sp1 = set(ref.startpoints(n0)), set(ref.startpoints(n1))
    S = set(case["startpoints"]) if case["startpoints"] is not None else (sp0 & sp1)
    if any(_bad_name(n) for n in S):
        raise Skip("reserved names")      # a tied startpoint named like a node of the miter itself: refused (assumption)
    if any(_bad_name(n) for net in (n0, n1) for n in net["nodes"]):
        ctx.probe("nets_named_like_miter_nodes")
    E = set(case["endpoints"]) if case["endpoints"] else (set(ref.outputs(n0)) & set(ref.outputs(n1)))
    if not S <= (sp0 & sp1) or not E <= (set(n0["nodes"]) & set(n1["nodes"])):
        raise Skip("subset not shared")
    if not E:
        ctx.probe("no_common_endpoint")      # nothing is compared: `sat` must be 0 for every valuation
    if len(S) + len(sp0 - S) + len(sp1 - S) > 10:
        raise Skip("too many free signals")
    if (set(n0["nodes"]) | set(n1["nodes"])) & (S - sp0 - sp1):
        raise Skip("clash")
    # a tied startpoint name must not clash with a prefixed node name
    c0 = ref.build(cg, n0)
    c1 = ref.build(cg, n1) if case["c1"] is not None else None
    sig = {"kind": case["kind"], "single_ep": len(E) == 1}
    ctx.probe(f"pair:{case['kind']}")
    if len(E) == 1:
        ctx.probe("single_endpoint")
    if (sp0 - S) or (sp1 - S):
        ctx.probe("untied_startpoint")
    kw = {}
    form = case.get("arg_form") or ("list" if case.get("as_list") else "set")

    def box(names):
        # how a caller may hand over a selection of names: set, list, list with a repeated name, one-shot iterable,
        # or - for a single name - the bare string
        names = list(names)
        if form == "str" and len(names) == 1:
            return names[0]
        if form == "dup" and names:
            return names + [names[0]]
        if form == "iter":
            return (n for n in names)
        return names if form == "list" else set(names)
    if form in ("str", "dup", "iter"):
        ctx.probe("arg_form:" + form)
    if case["startpoints"] is not None:
        kw["startpoints"] = box(case["startpoints"])
        if not case["startpoints"]:
            ctx.probe("tie_nothing")
    if case["endpoints"]:
        kw["endpoints"] = box(case["endpoints"])
    b0, b1 = ref.snapshot(c0), (ref.snapshot(c1) if c1 is not None else None)
    if form == "iter":
        ctx.twice = ctx.stale = False        # a one-shot iterable can be handed over once
    if case.get("repeat") and form != "iter":
        # a caller comparing in a loop passes the same startpoints / endpoints objects to every call;
        # the miter examined below is the one from the second call
        ctx.probe("repeated_call_same_objects")
        ctx.call("C04.raises", sig, cg.tx.miter, c0, c1, **kw)
    m = ctx.call("C04.raises", sig, cg.tx.miter, c0, c1, **kw)
    ms = ref.snapshot(m)
    ctx.log("miter", state_digest(m))
    ctx.stats["steps"] += 1
    if ref.snapshot(c0) != b0 or (c1 is not None and ref.snapshot(c1) != b1):
        ctx.violate("C04.mutated_arg", "miter changed an argument", sig)
    if set(ref.inputs(ms)) != S:
        ctx.violate("C04.inputs", f"miter inputs {ref.inputs(ms)} != tied startpoints {sorted(S)}", sig)
    if "sat" not in ms["nodes"] or not ms["nodes"]["sat"][2]:
        ctx.violate("C04.no_sat", "miter has no output 'sat'", sig)
    if ref.is_cyclic(ms) or ref.wiring_violations(ms):
        ctx.violate("C04.illegal", f"miter not well formed: {ref.wiring_violations(ms)[:3]}", sig)
    free = sorted(S) + sorted(f"c0_{x}" for x in sp0 - S) + sorted(f"c1_{x}" for x in sp1 - S)
    mfree = ref.free_nodes(ms)
    if sorted(mfree) != sorted(free):
        ctx.violate("C04.free", f"free signals of the miter {sorted(mfree)} != expected {sorted(free)}", sig)
    k = len(free)
    vt = ref.var_tts(k)
    idx = {n: i for i, n in enumerate(free)}
    full = (1 << (1 << k)) - 1
    t0, _, _ = ref.truth_tables(n0, [], fixed={x: vt[idx[x if x in S else f"c0_{x}"]] for x in sp0}, k=k)
    t1, _, _ = ref.truth_tables(n1, [], fixed={x: vt[idx[x if x in S else f"c1_{x}"]] for x in sp1}, k=k)
    want = 0
    for e in E:
        want |= t0[e] ^ t1[e]
    tm, _, _ = ref.truth_tables(ms, free)
    got = tm["sat"]
    if got != want:
        w = ref.witness(got, want, free)
        ctx.violate("C04.sat_function", f"miter 'sat' differs from OR of endpoint differences (endpoints {sorted(E)}), "
                    f"e.g. under {w}: sat={(got >> sum(v << idx[n] for n, v in w.items())) & 1}", sig)
    nd = ref.popcount(want)
    ctx.probe("equivalent" if nd == 0 else "different")
    if 0 < nd * 16 <= (1 << k):
        ctx.probe("differs_rarely")
    res = ctx.call("C04.solve_raises", sig, cg.sat.solve, m, {"sat": True})
    ctx.log("solve", res is False)
    if (res is False) != (want == 0):
        ctx.violate("C04.equivalence_decision", f"solve(miter, sat=1) is {'False' if res is False else 'a model'} but the "
                    f"circuits {'agree' if want == 0 else 'differ'} on the compared endpoints", sig)
    if res is not False:
        i = sum((1 << idx[n]) for n in free if res[n])
        if not (want >> i) & 1:
            ctx.violate("C04.witness", f"the returned model {({n: res[n] for n in free})} does not distinguish the circuits", sig)
    if any((t0[e] ^ t1[e]) or (t0[e] not in (0, full)) for e in E):
        ctx.stats["nontrivial"] += 1


def sig_key(sig):
    return (sig.get("exc"), sig.get("single_ep"))


def shrink(case):
    if case["c1"] is not None:
        for net in G.shrink_net(case["c1"]):
            if net is not None and ref.is_lint_clean(net) and not ref.is_cyclic(net):
                yield dict(case, c1=net)
    for net in G.shrink_net(case["c0"]):
        if net is not None and ref.is_lint_clean(net) and not ref.is_cyclic(net):
            yield dict(case, c0=net)
            if case["c1"] is not None:
                yield dict(case, c0=net, c1=copy.deepcopy(net), kind="copy")
    for key in ("startpoints", "endpoints"):
        v = case[key]
        if v:
            yield dict(case, **{key: None})
            if len(v) > 1:
                for x in v:
                    yield dict(case, **{key: [y for y in v if y != x]})
    if case.get("repeat"):
        yield dict(case, repeat=False)
    if case.get("as_list"):
        yield dict(case, as_list=False)
    if case.get("arg_form"):
        yield dict(case, arg_form=None)
    if case["peer"].get("policy") != "inputs_first":
        yield dict(case, peer=dict(case["peer"], policy="inputs_first"))


def fingerprint(case, r):
    if r["stats"].get("nontrivial"):
        return fp([ref.canon(case["c0"]), ref.canon(case["c1"]) if case["c1"] else None, case["startpoints"], case["endpoints"]])
    return None


def sample(case, r):
    return {k: case[k] for k in ("c0", "c1", "kind", "startpoints", "endpoints")}
