"""C16 - remove_unloaded deletes exactly the dead logic.

Workload: histories on acyclic circuits: edits that create dead logic in different ways, interleaved
with remove_unloaded(inputs=False|True) calls.  Oracle: backward reachability from outputs and
blackbox input pins on the snapshot taken just before each call."""
import copy

from cgsim import gen as G, ref
from cgsim.core import fp, Skip, state_digest

ID = "C16"
QUICK = dict(worlds=16, runs=1500, seconds=15)
THOROUGH = dict(worlds=256, runs=6000, seconds=30)
RULE = ("seeded histories of edits + remove_unloaded calls on acyclic circuits; distinct = net + op list; "
        "non-trivial = some call had to delete at least one node and keep at least one")
PROBES = ["input_unloaded_from_start", "input_loaded_only_by_dead", "unloaded_bb_output", "dead_chain>=3",
          "dead_shares_fanin_with_live", "inputs=True", "inputs=False", "second_call", "dead_constant"]
ASSUMPTIONS = ["inputs=True only on blackbox-free circuits (as the property's quantifier says)", "acyclic circuits"]
TIME_UNIT = "API calls"


def live_set(net):
    nodes = net["nodes"]
    roots = [n for n, (t, fi, o) in nodes.items() if o or t == "bb_input"]
    seen = set(roots)
    stack = list(roots)
    while stack:
        n = stack.pop()
        for f in nodes[n][1]:
            if f not in seen:
                seen.add(f)
                stack.append(f)
    return seen


def expected_removed(net, inputs):
    live = live_set(net)
    out = set()
    for n, (t, fi, o) in net["nodes"].items():
        if n in live:
            continue
        if t in ref.GATES or t in ("0", "1", "x"):
            out.add(n)
        elif t == "input" and inputs:
            out.add(n)
    return out


def model_apply(net, op):
    nodes = net["nodes"]
    k = op[0]
    if k == "set_output":
        if op[1] in nodes:
            nodes[op[1]][2] = op[2]
    elif k == "disconnect":
        if op[2] in nodes and op[1] in nodes[op[2]][1]:
            nodes[op[2]][1].remove(op[1])
    elif k == "remove":
        if op[1] in nodes:
            del nodes[op[1]]
            for n in nodes:
                if op[1] in nodes[n][1]:
                    nodes[n][1].remove(op[1])
    elif k == "add":
        nodes[op[1]] = [op[2], [f for f in op[3] if f in nodes], False]
        if len(op) > 4 and op[4] in nodes and op[1] not in nodes[op[4]][1]:
            nodes[op[4]][1].append(op[1])
    elif k == "remove_unloaded":
        for n in expected_removed(net, op[1]):
            del nodes[n]


def gen(rng, tier):
    bbs = rng.choice((0, 0, 1, 2))
    net = G.gen_net(rng, n_inputs=(1, 5), n_gates=(2, 12), types=G.swarm_types(rng), max_arity=3,
                    constants=0.3, bbs=bbs, unconnected_pins=0.2 if bbs else 0.0, min_outputs=1, shuffle_order=0.5)
    model = copy.deepcopy(net)
    ops = []
    cnt = 0
    n_ops = rng.randint(10, 30) if (tier == "thorough" and rng.random() < 0.3) else rng.randint(2, 14)
    for _ in range(n_ops):
        nodes = model["nodes"]
        names = list(nodes)
        fo = ref.fanout_map(model)
        r = rng.random()
        op = None
        if r < 0.28:
            inputs_flag = (not model["bbs"]) and rng.random() < 0.5
            op = ["remove_unloaded", inputs_flag]
        elif r < 0.45:
            outs = [n for n in names if nodes[n][2]]
            if outs and rng.random() < 0.8:
                op = ["set_output", rng.choice(outs), False]
            else:
                cand = [n for n in names if nodes[n][0] not in ("bb_input",)]
                if cand:
                    op = ["set_output", rng.choice(cand), True]
        elif r < 0.55:
            cands = [(f, n) for n in names for f in nodes[n][1] if nodes[n][0] in ref.MULTI and len(nodes[n][1]) >= 2]
            if cands:
                u, v = rng.choice(cands)
                op = ["disconnect", u, v]
        elif r < 0.63:
            sinks = [n for n in names if not fo[n] and nodes[n][0] in ref.GATES]
            if sinks:
                op = ["remove", rng.choice(sinks)]
        else:
            cnt += 1
            name = f"d{cnt}"
            if model["bbs"] and rng.random() < 0.2:
                # an ordinary gate whose (legal) name sits under an instance's prefix, like uid- or hierarchy-derived names
                name = f"{rng.choice(sorted(model['bbs']))}.{rng.choice(('q_n', 'x', 'n3', 'q_0'))}{cnt}"
            t = rng.choice(["and", "or", "xor", "nand", "buf", "not", "input", "input", "0", "1", "x", "nor", "xnor"])
            drivers = [n for n in names if nodes[n][0] not in ("bb_input", "bb_output")]
            if t in ("input", "0", "1", "x") or not drivers:
                fi = []
                if t not in ("input", "0", "1", "x"):
                    t = "input"
            elif t in ("buf", "not"):
                fi = [rng.choice(drivers)]
            else:
                fi = rng.sample(drivers, rng.randint(1, min(3, len(drivers))))
            op = ["add", name, t, fi]
            sinks = [n for n in names if nodes[n][0] in ref.MULTI]
            if sinks and t not in ("input", "0", "1", "x") and rng.random() < 0.35:
                # a driver created AFTER its load: add(name, t, fanin=..., fanout=[existing gate])
                op = ["add", name, t, fi, rng.choice(sinks)]
        if op is None:
            continue
        ops.append(op)
        model_apply(model, op)
    ops.append(["remove_unloaded", (not model["bbs"]) and rng.random() < 0.5])
    return {"net": net, "ops": ops, "peer": {"seed": rng.getrandbits(32)}}


def run(case, ctx):
    cg = ctx.cg
    net = case["net"]
    if ref.is_cyclic(net) or ref.wiring_violations(net):
        raise Skip("precondition")
    c = ref.build(cg, net)
    nontrivial = False
    start_unloaded_inputs = {n for n, v in net["nodes"].items() if v[0] == "input" and not v[2]
                             and not ref.fanout_map(net)[n]}
    for step, op in enumerate(case["ops"]):
        k = op[0]
        ctx.stats["calls"] += 1
        if k != "remove_unloaded":
            try:
                if k == "set_output":
                    c.set_output(op[1], op[2])
                elif k == "disconnect":
                    c.disconnect(op[1], op[2])
                elif k == "remove":
                    c.remove(op[1])
                elif k == "add":
                    c.add(op[1], op[2], fanin=[f for f in op[3] if f in c],
                          fanout=[op[4]] if len(op) > 4 and op[4] in c else None)
                ctx.log(step, k, "ok")
            except Exception as e:   # edits are workload, not the subject: a failed edit is skipped
                ctx.log(step, k, type(e).__name__)
            continue
        inputs = op[1]
        before = ref.snapshot(c)
        if ref.is_cyclic(before):
            raise Skip("edit made it cyclic")
        if inputs and before["bbs"]:
            raise Skip("inputs=True only on blackbox-free circuits")
        ctx.probe("inputs=True" if inputs else "inputs=False")
        live = live_set(before)
        want = expected_removed(before, inputs)
        nodes = before["nodes"]
        fo = ref.fanout_map(before)
        # reach probes
        for n, (t, fi, o) in nodes.items():
            if n in live:
                continue
            if t == "input" and not fo[n]:
                if n in start_unloaded_inputs:
                    ctx.probe("input_unloaded_from_start")
            if t == "input" and fo[n]:
                ctx.probe("input_loaded_only_by_dead")
            if t == "bb_output" and not fo[n]:
                ctx.probe("unloaded_bb_output")
            if t in ("0", "1", "x"):
                ctx.probe("dead_constant")
            if t in ref.GATES and any(f in live and any(x in live for x in fo[f]) for f in fi):
                ctx.probe("dead_shares_fanin_with_live")
        dead = [n for n in nodes if n not in live and nodes[n][0] in ref.GATES]
        if len(dead) >= 3:
            depth = {}
            for n in ref.topo_order(before):
                if n in dead:
                    depth[n] = 1 + max([depth.get(f, 0) for f in nodes[n][1]] + [0])
            if depth and max(depth.values()) >= 3:
                ctx.probe("dead_chain>=3")
        sig = {"inputs": inputs}
        ret = ctx.call("C16.raises", sig, c.remove_unloaded, inputs=inputs)
        ret = list(ret)
        after = ref.snapshot(c)
        ctx.log(step, "remove_unloaded", inputs, ret, state_digest(c))
        got = set(before["nodes"]) - set(after["nodes"])
        wrongly = sorted(got - want)
        missed = sorted(want - got)
        if wrongly:
            kinds = sorted({nodes[n][0] if nodes[n][0] in ("input", "bb_output", "bb_input") else "live" for n in wrongly})
            ctx.violate("C16.deleted_too_much", f"step {step}: remove_unloaded(inputs={inputs}) deleted {wrongly} "
                        f"(types {[nodes[n][0] for n in wrongly]}) which must stay", dict(sig, kinds=kinds))
        if missed:
            ctx.violate("C16.dead_left", f"step {step}: remove_unloaded(inputs={inputs}) left dead nodes {missed}", sig)
        if set(after["nodes"]) - set(before["nodes"]):
            ctx.violate("C16.added", f"step {step}: nodes appeared: {sorted(set(after['nodes']) - set(before['nodes']))}", sig)
        for n, v in after["nodes"].items():
            if v != before["nodes"][n]:
                ctx.violate("C16.survivor_changed", f"step {step}: node {n} changed {before['nodes'][n]} -> {v}", sig)
        if after["bbs"] != before["bbs"]:
            ctx.violate("C16.registry", f"step {step}: blackbox registry changed", sig)
        if sorted(ret) != sorted(got) or len(ret) != len(set(ret)):
            ctx.violate("C16.return", f"step {step}: returned {sorted(ret)} but deleted {sorted(got)}", sig)
        ret2 = list(ctx.call("C16.raises", sig, c.remove_unloaded, inputs=inputs))
        ctx.probe("second_call")
        if ret2 or ref.snapshot(c) != after:
            ctx.violate("C16.idempotent", f"step {step}: second call removed {ret2}", sig)
        if want and len(want) < len(nodes):
            nontrivial = True
    if nontrivial:
        ctx.stats["nontrivial"] += 1


def sig_key(sig):
    return (sig.get("inputs"), tuple(sig.get("kinds") or ()), sig.get("exc"))


def shrink(case):
    ops = case["ops"]
    n = len(ops)
    chunk = n // 2
    while chunk >= 1:
        for i in range(0, n, chunk):
            o2 = ops[:i] + ops[i + chunk:]
            if o2 and len(o2) < n:
                yield dict(case, ops=o2)
        chunk //= 2
    for net in G.shrink_net(case["net"]):
        if net is not None and not ref.is_cyclic(net) and not ref.wiring_violations(net):
            yield dict(case, net=net)
    for i, op in enumerate(ops):
        if op[0] == "add" and len(op[3]) > 1:
            for f in op[3]:
                yield dict(case, ops=ops[:i] + [[op[0], op[1], op[2], [x for x in op[3] if x != f]]] + ops[i + 1:])


def fingerprint(case, r):
    if r["stats"].get("nontrivial"):
        return fp([ref.canon(case["net"]), case["ops"]])
    return None


def sample(case, r):
    return {"net": case["net"], "ops": case["ops"]}
