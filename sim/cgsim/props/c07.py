"""C07 - the construction API never leaves an illegally wired circuit.

Workload: seeded histories of API calls (about a third of them illegal on purpose) over a
small name universe.  Oracle: wiring rules I1..I9 evaluated on the raw graph after EVERY
call, whether it returned or raised.
"""
import copy

from cgsim import gen as G, ref
from cgsim.core import fp

ID = "C07"
QUICK = dict(worlds=16, runs=4500, seconds=18)
THOROUGH = dict(worlds=256, runs=6000, seconds=28)

BBTYPES = {"bbA": [["a", "b"], ["y"]], "bbB": [["d"], ["q", "qn"]], "bbC": [["p"], ["z"]],
           "bbD": [["a", "y"], ["y"]],     # malformed on purpose: pin y listed in both directions (an invalid argument)
           "bbE": [["p"], ["k.z"]],        # a pin named like the pin of a nested instance (what a child exporting one needs)
           "bbF": [["p"], ["k.p"]],        # ... here the exported node is the nested instance's INPUT pin
           "bbG": [[], ["y"]]}             # a source: no input pins (built with the constructor's default for `inputs`)

CHILDREN = {
    "ch1": {"name": "ch1", "bbs": {}, "nodes": {
        "a": ["input", [], False], "b": ["input", [], False], "y": ["and", ["a", "b"], True]}},
    "ch2": {"name": "ch2", "bbs": {}, "nodes": {
        "d": ["input", [], False], "q": ["buf", ["d"], True], "qn": ["not", ["d"], True]}},
    "ch3": {"name": "ch3", "bbs": {"k": ["bbC", ["p"], ["z"]]}, "nodes": {
        "p": ["input", [], False], "k.p": ["bb_input", ["p"], False], "k.z": ["bb_output", [], False],
        "w": ["buf", ["k.z"], False], "z": ["not", ["w"], True]}},
    "ch4": {"name": "ch4", "bbs": {}, "nodes": {
        "a": ["input", [], False], "y": ["or", ["a"], True]}},
    "ch5": {"name": "ch5", "bbs": {}, "nodes": {
        "a": ["input", [], False], "b": ["input", [], False], "t": ["xor", ["a", "b"], False],
        "y": ["nand", ["t", "a"], True]}},
    # a child that exports the output pin of a nested blackbox, which also drives logic inside the child
    "ch7": {"name": "ch7", "bbs": {"k": ["bbC", ["p"], ["z"]]}, "nodes": {
        "p": ["input", [], False], "k.p": ["bb_input", ["p"], False], "k.z": ["bb_output", [], True],
        "w": ["buf", ["k.z"], False]}},
    # a child whose output is the input pin of a nested blackbox
    "ch8": {"name": "ch8", "bbs": {"k": ["bbC", ["p"], ["z"]]}, "nodes": {
        "p": ["input", [], False], "k.p": ["bb_input", ["p"], True], "k.z": ["bb_output", [], False]}},
    # node names that resemble instance names (first letters shared with "u", "m", "r_", "v")
    "ch6": {"name": "ch6", "bbs": {}, "nodes": {
        "u1": ["input", [], False], "m": ["not", ["u1"], False], "r_y": ["and", ["u1", "m"], True],
        "v": ["buf", ["m"], True]}},
}
CHILD_NODE_NAMES = sorted({n for ch in CHILDREN.values() for n in ch["nodes"] if "." not in n})
# (ch4 lacks pin b: a model that leaves an input pin unused)
CHILD_FOR_TYPE = {"bbA": ["ch1", "ch5", "ch4", "ch4"], "bbB": ["ch2"], "bbC": ["ch3"], "bbD": ["ch1"], "bbE": ["ch7"], "bbF": ["ch8"], "bbG": ["ch1"]}

BASE_NAMES = ["a", "b", "c", "d", "e", "f", "g", "h"]
ODD_NAMES = ["3x", "u.y", "u.a", "u_a", "u_b", "u_y", "v_q", "v_b", "u_k", "zz", ""]
INSTS = ["u", "v", "u_k", "m", "r", "t", "3i", "u.k"]     # "u.k": its pins u.k.<p> can coincide with pin k.<p> of instance u
TYPES = ["and", "nand", "or", "nor", "xor", "xnor", "buf", "not", "input", "0", "1", "x"]


class Model:
    """Approximate model of the circuit, used ONLY to bias generation towards interesting
    calls (never as an oracle)."""

    def __init__(self):
        self.nodes = {}
        self.edges = set()
        self.bbs = {}

    def fanin(self, n):
        return [u for (u, v) in self.edges if v == n]

    def connect_ok(self, us, vs):
        for n in us + vs:
            if n not in self.nodes:
                return False
        for v in vs:
            t = self.nodes[v]
            if t in ("input", "0", "1", "x", "bb_output"):
                return False
            if t in ("bb_input", "buf", "not") and len(self.fanin(v)) + len(us) > 1:
                return False
        for u in us:
            t = self.nodes[u]
            if t == "bb_input":
                return False
            if t == "bb_output":
                if any(self.nodes[v] != "buf" for v in vs):
                    return False
                if len([1 for (a, b) in self.edges if a == u]) + len(vs) > 1:
                    return False
        return True

    def apply(self, op):
        op = [_plain(a) for a in op]
        k = op[0]
        if k == "add":
            _, n, t, fi, fo, out, uid = op
            fi = [] if fi is None else ([fi] if isinstance(fi, str) else list(fi))
            fo = [] if fo is None else ([fo] if isinstance(fo, str) else list(fo))
            if uid:
                i = 0
                base = n
                while n in self.nodes:
                    n = f"{base}_{i}"
                    i += 1
            if n in self.nodes or t not in TYPES or not n or n[0].isdigit():
                return
            if (len(fi) > 1 and t in ("buf", "not")) or (fi and t in ("0", "1", "x", "input")):
                return
            self.nodes[n] = t
            if fo and self.connect_ok([n], fo):
                self.edges |= {(n, v) for v in fo}
            if fi and self.connect_ok(fi, [n]):
                self.edges |= {(u, n) for u in fi}
        elif k == "connect":
            us = [op[1]] if isinstance(op[1], str) else list(op[1])
            vs = [op[2]] if isinstance(op[2], str) else list(op[2])
            if us and vs and self.connect_ok(us, vs):
                self.edges |= {(u, v) for u in us for v in vs}
        elif k == "disconnect":
            us = [op[1]] if isinstance(op[1], str) else list(op[1])
            vs = [op[2]] if isinstance(op[2], str) else list(op[2])
            self.edges -= {(u, v) for u in us for v in vs}
        elif k == "remove":
            ns = [op[1]] if isinstance(op[1], str) else list(op[1])
            for n in ns:
                self.nodes.pop(n, None)
            self.edges = {(u, v) for (u, v) in self.edges if u in self.nodes and v in self.nodes}
        elif k == "add_blackbox":
            _, tname, inst, conns = op
            if inst in self.bbs:
                return
            ins, outs = BBTYPES[tname]
            if any(f"{inst}.{p}" in self.nodes for p in ins + outs) or set(ins) & set(outs):
                return
            self.bbs[inst] = tname
            for p in ins:
                self.nodes[f"{inst}.{p}"] = "bb_input"
            for p in outs:
                self.nodes[f"{inst}.{p}"] = "bb_output"
            for p, n in (conns or {}).items():
                if p in ins and self.connect_ok([n], [f"{inst}.{p}"]):
                    self.edges.add((n, f"{inst}.{p}"))
                elif p in outs and self.connect_ok([f"{inst}.{p}"], [n]):
                    self.edges.add((f"{inst}.{p}", n))
        elif k in ("add_subcircuit", "fill_blackbox"):
            if k == "add_subcircuit":
                _, cname, inst, conns, strip = op
                if cname == "self":
                    for n, t in list(self.nodes.items()):
                        self.nodes[f"{inst}_{n}"] = "buf" if t == "input" else t
                    return
            else:
                _, inst, cname = op
                if inst not in self.bbs or cname == "self":
                    return
                tname = self.bbs.pop(inst)
                for p in BBTYPES[tname][0] + BBTYPES[tname][1]:
                    if f"{inst}.{p}" in self.nodes:
                        t = self.nodes.pop(f"{inst}.{p}")
                        self.nodes[f"{inst}_{p}"] = "buf"
                        self.edges = {(f"{inst}_{p}" if u == f"{inst}.{p}" else u,
                                       f"{inst}_{p}" if v == f"{inst}.{p}" else v) for (u, v) in self.edges}
            ch = CHILDREN[cname]
            if any(f"{inst}_{n}" in self.nodes for n in ch["nodes"]) and k == "add_subcircuit":
                return
            for n, (t, fi, o) in ch["nodes"].items():
                self.nodes[f"{inst}_{n}"] = "buf" if t == "input" else t
                for f in fi:
                    self.edges.add((f"{inst}_{f}", f"{inst}_{n}"))
            for b in ch["bbs"]:
                self.bbs[f"{inst}_{b}"] = ch["bbs"][b][0]


def _pick_names(rng, model, k_max=3, allow_missing=0.15, allow_dup=0.1):
    pool = list(model.nodes) or BASE_NAMES[:2]
    k = rng.randint(1, k_max)
    out = []
    for _ in range(k):
        if rng.random() < allow_missing:
            out.append(rng.choice(BASE_NAMES + ODD_NAMES))
        else:
            out.append(rng.choice(pool))
    if out and rng.random() < allow_dup:
        out.append(rng.choice(out))
    return out


def _arg(rng, names):
    """Present a name list the way callers do: None, str, list - or a one-shot iterable (the docstrings promise
    "str or iterable of str"), encoded in the JSON case as {"iter": [...]} and turned into iter([...]) at the call."""
    if not names:
        return None
    if len(names) == 1 and rng.random() < 0.6:
        return names[0]
    if rng.random() < 0.07:
        return {"iter": list(names)}
    return list(names)


def _plain(x):
    """The list behind an {"iter": [...]} marker (for the model and the reference-side classification)."""
    if isinstance(x, dict) and set(x) == {"lazy"}:
        return list(x["lazy"])
    return list(x["iter"]) if isinstance(x, dict) and set(x) == {"iter"} else x


def _live(x, c=None):
    """What is actually passed to the library."""
    if isinstance(x, dict) and set(x) == {"lazy"}:
        # a selection computed lazily from the circuit being edited: `c.remove(n for n in c if <condition>)`
        sel = set(x["lazy"])
        return (n for n in c if n in sel)
    if isinstance(x, dict) and set(x) == {"iter"}:
        return iter(list(x["iter"]))
    if isinstance(x, dict):
        return {k: _live(v) for k, v in x.items()}
    return x


def gen_op(rng, model, w):
    kinds = ["add", "connect", "disconnect", "remove", "set_output", "add_blackbox", "add_subcircuit", "fill_blackbox"]
    k = rng.choices(kinds, weights=w)[0]
    if k == "add":
        collide = False
        if rng.random() < 0.75:
            free = [n for n in BASE_NAMES if n not in model.nodes]
            n = rng.choice(free) if free and rng.random() < 0.8 else rng.choice(BASE_NAMES + ODD_NAMES)
        else:
            n = rng.choice(BASE_NAMES + ODD_NAMES)
        if rng.random() < 0.15:
            # a name that a later composition call will want for itself: <instance>_<pin or child node>
            n = f"{rng.choice(INSTS[:3] if rng.random() < 0.5 else INSTS[:6])}_{rng.choice(CHILD_NODE_NAMES + ['k'])}"
            if rng.random() < 0.5:
                # ... aimed at what exists or is likely to come: a pin of a recorded instance, or of the usual ones
                inst = rng.choice(sorted(model.bbs)) if model.bbs and rng.random() < 0.6 else rng.choice(INSTS[:3])
                tname = model.bbs.get(inst) or rng.choice(("bbA", "bbB", "bbC"))
                n = f"{inst}_{rng.choice(BBTYPES[tname][0] + BBTYPES[tname][1])}"
                collide = True
        t = rng.choice(TYPES) if rng.random() < 0.93 else rng.choice(["foo", "bb_input", "bb_output", "AND"])
        if collide and rng.random() < 0.6:
            t = rng.choice(("buf", "not", "and", "input"))     # a driven single-input node shows a merged pin at once
        uid = rng.random() < 0.25
        fi = fo = None
        if t not in ("input", "0", "1", "x") or rng.random() < 0.1:
            if (rng.random() < 0.6 or collide) and model.nodes:
                kmax = 1 if t in ("buf", "not") and rng.random() < 0.85 else 3
                fi = _pick_names(rng, model, kmax)
                if rng.random() < 0.05:
                    fi.append(n)
                fi = _arg(rng, fi)
        if rng.random() < 0.35 and model.nodes:
            fo = _pick_names(rng, model, 2)
            if rng.random() < 0.6:
                sinks = [x for x, tt in model.nodes.items() if tt in ("and", "nand", "or", "nor", "xor", "xnor")
                         or (tt in ("buf", "not") and not model.fanin(x))]
                if sinks:
                    fo = [rng.choice(sinks)]
            if rng.random() < 0.08:
                fo.append(n)
            fo = _arg(rng, fo)
        return ["add", n, t, fi, fo, rng.random() < 0.2, uid]
    if k in ("connect", "disconnect"):
        us = _arg(rng, _pick_names(rng, model, 2))
        vs = _arg(rng, _pick_names(rng, model, 2))
        if k == "connect" and rng.random() < 0.65:
            # bias towards a legal pair (by the approximate model)
            sinks = [n for n, t in model.nodes.items() if t in ("and", "nand", "or", "nor", "xor", "xnor")
                     or (t in ("buf", "not", "bb_input") and not model.fanin(n))]
            drivers = [n for n, t in model.nodes.items() if t not in ("bb_input", "bb_output")]
            if sinks and drivers:
                v = rng.choice(sinks)
                u = rng.choice(drivers)
                if model.nodes[v] == "buf" and rng.random() < 0.3:
                    free_bbo = [n for n, t in model.nodes.items() if t == "bb_output"
                                and not any(a == n for (a, b) in model.edges)]
                    if free_bbo:
                        u = rng.choice(free_bbo)
                us, vs = u, v
        if k == "disconnect" and model.edges and rng.random() < 0.6:
            u, v = rng.choice(sorted(model.edges))
            us, vs = u, v
        return [k, us, vs]
    if k == "remove":
        pool = list(model.nodes)
        if pool and rng.random() < 0.9:
            ns = rng.sample(pool, min(len(pool), rng.randint(1, 2)))
            pins = [n for n in pool if "." in n]
            if pins and rng.random() < 0.35:
                ns = [rng.choice(pins)]
        else:
            ns = [rng.choice(BASE_NAMES + ODD_NAMES)]
        if len(ns) >= 1 and rng.random() < 0.12:
            return ["remove", {"lazy": list(ns)}]
        return ["remove", _arg(rng, ns)]
    if k == "set_output":
        pool = list(model.nodes) or BASE_NAMES
        return ["set_output", _arg(rng, rng.sample(pool, min(len(pool), rng.randint(1, 2)))), rng.random() < 0.75]
    if k == "add_blackbox":
        tname = rng.choice(sorted(BBTYPES))
        inst = rng.choice(INSTS)
        ins, outs = BBTYPES[tname]
        conns = None
        if rng.random() < 0.75:
            conns = {}
            for p in ins:
                if rng.random() < 0.7:
                    drivers = [n for n, t in model.nodes.items() if t not in ("bb_input", "bb_output")]
                    conns[p] = rng.choice(drivers) if drivers and rng.random() < 0.85 else rng.choice(BASE_NAMES + ODD_NAMES)
            for p in outs:
                if rng.random() < 0.7:
                    bufs = [n for n, t in model.nodes.items() if t == "buf" and not model.fanin(n)]
                    conns[p] = rng.choice(bufs) if bufs and rng.random() < 0.8 else rng.choice(list(model.nodes) or BASE_NAMES)
            if rng.random() < 0.12:
                conns[rng.choice(["nopin", "y", "a", "q"])] = rng.choice(list(model.nodes) or BASE_NAMES)
            if rng.random() < 0.3:
                items = list(conns.items())
                rng.shuffle(items)
                conns = dict(items)
            for p in list(conns):
                if rng.random() < 0.06:
                    conns[p] = rng.choice(([conns[p]], {"iter": [conns[p]]}))   # a net given as list / one-shot iterable
        return ["add_blackbox", tname, inst, conns]
    if k == "add_subcircuit":
        cname = rng.choice(sorted(CHILDREN))
        inst = rng.choice(INSTS)
        if rng.random() < 0.04:
            # self-referential argument: the circuit instantiated inside itself
            return ["add_subcircuit", "self", inst, None, rng.random() < 0.85]
        ch = CHILDREN[cname]
        conns = None
        if rng.random() < 0.8:
            conns = {}
            for n, (t, fi, o) in ch["nodes"].items():
                if t == "input" and rng.random() < 0.8:
                    drivers = [x for x, tt in model.nodes.items() if tt not in ("bb_input", "bb_output")]
                    conns[n] = rng.choice(drivers) if drivers and rng.random() < 0.85 else rng.choice(BASE_NAMES + ODD_NAMES)
                elif o and rng.random() < 0.6:
                    sinks = [x for x, tt in model.nodes.items() if tt in ("and", "or", "xor", "nand", "nor", "xnor")
                             or (tt in ("buf", "not") and not model.fanin(x))]
                    conns[n] = rng.choice(sinks) if sinks and rng.random() < 0.8 else rng.choice(list(model.nodes) or BASE_NAMES)
            if rng.random() < 0.1:
                conns[rng.choice(["t", "w", "nokey"])] = rng.choice(list(model.nodes) or BASE_NAMES)
            if rng.random() < 0.3:
                items = list(conns.items())
                rng.shuffle(items)
                conns = dict(items)
            for p in list(conns):
                if rng.random() < 0.06:
                    conns[p] = rng.choice(([conns[p]], {"iter": [conns[p]]}))
        return ["add_subcircuit", cname, inst, conns, rng.random() < 0.85]
    # fill_blackbox
    if model.bbs and rng.random() < 0.05:
        # self-referential argument: the circuit used as the implementation of one of its own instances
        return ["fill_blackbox", rng.choice(sorted(model.bbs)), "self"]
    if model.bbs and rng.random() < 0.85:
        inst = rng.choice(sorted(model.bbs))
        tname = model.bbs[inst]
        cname = rng.choice(CHILD_FOR_TYPE.get(tname, ["ch1"])) if rng.random() < 0.85 else rng.choice(sorted(CHILDREN))
    else:
        inst = rng.choice(INSTS)
        cname = rng.choice(sorted(CHILDREN))
    return ["fill_blackbox", inst, cname]


def gen(rng, tier):
    start = None
    model = Model()
    if rng.random() < 0.3:
        start = G.gen_net(rng, n_inputs=(1, 3), n_gates=(1, 5), max_arity=3, bbs=0, name_style="plain",
                            cyclic=rng.random() < 0.2)
        # map generated names into the universe so later ops hit them
        names = [n for n in start["nodes"]]
        mp = {n: BASE_NAMES[i] for i, n in enumerate(names[: len(BASE_NAMES)])}
        start = G.rename(start, mp)
        for n, (t, fi, o) in start["nodes"].items():
            model.nodes[n] = t
            for f in fi:
                model.edges.add((f, n))
    w = [rng.uniform(2, 6), rng.uniform(1, 4), rng.uniform(0.3, 2), rng.uniform(0.3, 2), rng.uniform(0.2, 1.5),
         rng.uniform(0.3, 2.5), rng.uniform(0.3, 2.5), rng.uniform(0.3, 2.5)]
    if rng.random() < 0.3:   # swarm: switch some op kinds off entirely
        for i in rng.sample(range(1, 8), rng.randint(1, 3)):
            w[i] = 0.0
    ops = []
    if start is None and rng.random() < 0.03:
        # self-referential fill: the only way `c.fill_blackbox(inst, c)` gets past the io check is a circuit whose own
        # inputs / outputs are called like the pins of the instance's type
        tname = rng.choice(("bbA", "bbB", "bbC"))
        ins, outs = BBTYPES[tname]
        for p in ins:
            ops.append(["add", p, "input", None, None, False, False])
        for p in outs:
            ops.append(["add", p, rng.choice(("and", "or", "xor", "not" if len(ins) == 1 else "nand")), list(ins[:1] if len(ins) == 1 else ins), None, True, False])
        inst = rng.choice(INSTS[:5])
        ops.append(["add_blackbox", tname, inst, {p: p for p in ins} if rng.random() < 0.7 else None])
        ops.append(["fill_blackbox", inst, "self"])
        for op in ops:
            model.apply(copy.deepcopy(op))
    if start is None and not ops and rng.random() < 0.03:
        # composition around a name that is already taken: a driven node called <inst>_<pin> exists before the instance is
        # created, connected and filled (with any implementation of its type, including one that leaves pins unused)
        tname = rng.choice(("bbA", "bbA", "bbB", "bbC"))
        ins, outs = BBTYPES[tname]
        inst = rng.choice(INSTS[:5])
        pin = rng.choice(ins + outs)
        ops.append(["add", "a", "input", None, None, False, False])
        ops.append(["add", "c", "input", None, None, False, False])
        t = rng.choice(("buf", "not", "and", "input", "or"))
        ops.append(["add", f"{inst}_{pin}", t, None if t == "input" else ["c"], None, rng.random() < 0.3, False])
        ops.append(["add_blackbox", tname, inst, {p: "a" for p in ins if rng.random() < 0.85}])
        ops.append(["fill_blackbox", inst, rng.choice(CHILD_FOR_TYPE[tname])])
        for op in ops:
            model.apply(copy.deepcopy(op))
    if start is None and not ops and rng.random() < 0.04:
        # parent nets called like the nodes INSIDE the implementation (w, y, t, q are names anybody uses): the loads of
        # the instance's output pins carry the names of the model's own nodes when the instance is filled
        tname = rng.choice(("bbA", "bbB", "bbC", "bbE", "bbE", "bbF"))
        cname = rng.choice(CHILD_FOR_TYPE[tname])
        ins, outs = BBTYPES[tname]
        inner = sorted(n for n in CHILDREN[cname]["nodes"] if "." not in n)
        inst = rng.choice(INSTS[:5])
        ops.append(["add", "a", "input", None, None, False, False])
        conns = {p: "a" for p in ins if rng.random() < 0.9}
        for p in outs:
            if inner and rng.random() < 0.9:
                nm = rng.choice(inner)
                if nm != "a" and nm not in [o[1] for o in ops]:
                    ops.append(["add", nm, "buf", None, None, rng.random() < 0.5, False])
                    conns[p] = nm
        ops.append(["add_blackbox", tname, inst, conns])
        ops.append(["fill_blackbox", inst, cname])
        for op in ops:
            model.apply(copy.deepcopy(op))
    for _ in range(rng.randint(30, 90) if (tier == "thorough" and rng.random() < 0.3) else rng.randint(5, 40)):
        if rng.random() < 0.02:
            # "uid storm": many uid adds of one name, to walk the suffix chain (_0 .. _10, _70, ...)
            nm = rng.choice(BASE_NAMES)
            for _ in range(rng.randint(4, 14)):
                op = ["add", nm, rng.choice(("buf", "and", "input")), None, None, False, True]
                ops.append(op)
                model.apply(copy.deepcopy(op))
            continue
        op = gen_op(rng, model, w)
        ops.append(op)
        try:
            model.apply(copy.deepcopy(op))
        except Exception:
            pass
    return {"start": start, "ops": ops, "peer": {"seed": rng.getrandbits(32)}}


# ----------------------------------------------------------------------------
def _aslist(x):
    x = _plain(x)
    if x is None:
        return []
    return [x] if isinstance(x, str) else list(x)


def classify_illegal(op, before, bbs_before):
    """Reference-side: is this call illegal because of type, name, duplicate or connection?
    Returns a reason string or None.  (Used only for I9: the exception TYPE of such calls.)"""
    nodes = before["nodes"]
    k = op[0]

    def conn_bad(us, vs, extra=None):
        nn = dict(nodes)
        nn.update(extra or {})
        for n in us + vs:
            if n not in nn:
                return f"node {n} missing"
        for v in vs:
            t = nn[v][0]
            if t in ("input", "0", "1", "x", "bb_output"):
                return f"connect to {t}"
        for u in us:
            if nn[u][0] == "bb_input":
                return "connect from bb_input"
        return None

    if k == "add":
        _, n, t, fi, fo, out, uid = op
        fi, fo = _aslist(fi), _aslist(fo)
        if t not in ref.SUPPORTED:
            return "type"
        if not uid and n in nodes:
            return "duplicate"
        if not n or n[0] in "0123456789":
            return "name"
        return None
    if k == "connect":
        # an empty name stands for "no net" (the library treats every falsy entry like None): nothing to connect
        us, vs = [x for x in _aslist(op[1]) if x], [x for x in _aslist(op[2]) if x]
        if not us or not vs or len(us) != len(_aslist(op[1])) or len(vs) != len(_aslist(op[2])):
            return None
        return conn_bad(us, vs)
    if k == "add_blackbox":
        _, tname, inst, conns = op
        ins, outs = BBTYPES[tname]
        if inst in bbs_before:
            return "duplicate instance name"
        for p, net in (conns or {}).items():
            if p not in ins and p not in outs:
                return "connection to an undefined pin"
            for n1 in _aslist(net):
                if n1 and n1 not in nodes and not (isinstance(n1, str) and n1.startswith(inst + ".")):
                    return f"connection to missing node {n1}"
        return None
    if k == "add_subcircuit" and op[1] != "self":
        _, cname, inst, conns, strip = op
        ch = CHILDREN[cname]
        conns = None if conns is None else {p: _plain(v) for p, v in conns.items()}
        if ch["nodes"] and (not inst or inst[0] in "0123456789"):
            return "name"          # every node it creates would be called <inst>_<n>: an illegal node name
        io = [n for n, v in ch["nodes"].items() if v[0] == "input" or v[2]]
        for p, net in (conns or {}).items():
            if p not in io:
                return "connection key is not child io"
            for n1 in _aslist(net):
                if n1 and n1 not in nodes and not (isinstance(n1, str) and n1.startswith(inst + "_")):
                    return f"connection to missing node {n1}"
        for n in ch["nodes"]:
            if f"{inst}_{n}" in nodes:
                return f"name {inst}_{n} is taken"
        return None
    if k == "fill_blackbox":
        if op[1] not in bbs_before:
            return "no such instance"
        return None
    return None


def _apply(cg, c, op, children, bbtypes):
    k = op[0]
    if k == "add":
        _, n, t, fi, fo, out, uid = op
        return c.add(n, t, fanin=_live(fi), fanout=_live(fo), output=out, uid=uid)
    if k == "connect":
        return c.connect(_live(op[1]), _live(op[2]))
    if k == "disconnect":
        return c.disconnect(_live(op[1]), _live(op[2]))
    if k == "remove":
        return c.remove(_live(op[1], c))
    if k == "set_output":
        return c.set_output(_live(op[1]), op[2])
    if k == "add_blackbox":
        return c.add_blackbox(bbtypes[op[1]], op[2], None if op[3] is None else _live(dict(op[3])))
    if k == "add_subcircuit":
        child = c if op[1] == "self" else children[op[1]]
        return c.add_subcircuit(child, op[2], None if op[3] is None else _live(dict(op[3])), strip_io=op[4])
    if k == "fill_blackbox":
        return c.fill_blackbox(op[1], c if op[2] == "self" else children[op[2]])
    raise RuntimeError(f"unknown op {k}")


def run(case, ctx):
    cg = ctx.cg
    from cgsim.core import state_digest
    c = ref.build(cg, case["start"]) if case.get("start") else cg.Circuit()
    children = {k: ref.build(cg, v) for k, v in CHILDREN.items()}
    bbtypes = {}
    for k, v in BBTYPES.items():
        try:
            # an empty pin list is left to the constructor's default (inputs=None / outputs=None)
            bbtypes[k] = cg.BlackBox(k, **{a: list(p) for a, p in (("inputs", v[0]), ("outputs", v[1])) if p})
        except Exception as e:
            ctx.violate("C07.blackbox_type", f"BlackBox({k!r}, inputs={v[0] or 'default'}, outputs={v[1] or 'default'}) raised "
                        f"{type(e).__name__}: {e}", {"rule": "blackbox_type", "op": "BlackBox"})
    exempt = set()       # instances for which the caller removed a pin node itself
    removed_by_caller = set()    # dotted node names the caller removed (with dotted instance names, `u.k.z` is the pin k.z
    #                              of instance u AND the pin z of a later instance u.k: the removal concerns both)
    snap = ref.snapshot(c)
    pre = ref.wiring_violations(snap)
    if pre:
        raise RuntimeError(f"generated start state is illegal: {pre}")
    for step, op in enumerate(case["ops"]):
        before = snap
        edges_before = set(c.graph.edges)
        bbs_before = set(c.blackboxes)
        exc = None
        ret = None
        try:
            ret = _apply(cg, c, op, children, bbtypes)
        except Exception as e:  # every exception type is an outcome here
            exc = e
        if op[0] == "remove":
            for n in _aslist(op[1]):
                if "." in n:
                    removed_by_caller.add(n)
                    # every recorded instance that has a pin of this name loses it (names with dots are ambiguous)
                    for i in bbs_before:
                        if n.startswith(i + "."):
                            exempt.add(i)
                    exempt.add(n.split(".")[0])
        if op[0] == "add_subcircuit" and op[1] == "self":
            # the copy of an instance whose pin the caller removed inherits the exemption
            for e in list(exempt):
                exempt.add(f"{op[2]}_{e}")
        if op[0] == "fill_blackbox" and op[2] == "self":
            # ... and so does the copy made when the circuit is the implementation of one of its own instances
            for e in list(exempt):
                exempt.add(f"{op[1]}_{e}")
        snap = ref.snapshot(c)
        outcome = "ok" if exc is None else type(exc).__name__
        ctx.log(step, op[0], outcome, state_digest(c))
        ctx.stats["calls"] += 1
        ctx.stats["calls_ok" if exc is None else "calls_rejected"] += 1
        ctx.probe(f"{op[0]}:{'ok' if exc is None else 'raise'}")
        sig = {"op": op[0], "outcome": outcome}
        # I1-I5 wiring, I6 pins
        for rule, n, msg in ref.wiring_violations(snap, pins=True):
            if rule.startswith("I6"):
                # the instance the pin belongs to (instance and pin names may contain dots themselves)
                inst = msg.rsplit("of instance ", 1)[-1]
                if inst in exempt or n in removed_by_caller:
                    continue
                ctx.violate(f"C07.{rule[:2]}", f"step {step} {op}: after {outcome}: {n}: {msg}",
                            dict(sig, rule=rule), soft=True)
                continue
            ctx.violate(f"C07.{rule}", f"step {step} {op}: after {outcome}: {n}: {msg}", dict(sig, rule=rule))
        # I7: a rejected call adds no edge
        if exc is not None:
            added = set(c.graph.edges) - edges_before
            if added:
                ctx.probe("raise_with_edges_added")
                ctx.violate("C07.I7", f"step {step} {op} raised {outcome} but added edges {sorted(added)}",
                            dict(sig, rule="I7"), soft=True)
            if set(snap["nodes"]) - set(before["nodes"]):
                ctx.probe("raise_after_node_created")
        # I8: uid never overwrites / renames
        if op[0] == "add" and op[6] and exc is None:
            if ret in before["nodes"]:
                ctx.violate("C07.I8", f"step {step} {op}: uid add returned existing name {ret!r}", dict(sig, rule="I8"))
            for n, (t, fi, o) in before["nodes"].items():
                if n not in snap["nodes"]:
                    ctx.violate("C07.I8", f"step {step} {op}: node {n} vanished", dict(sig, rule="I8"))
                t2, fi2, o2 = snap["nodes"][n]
                if t2 != t or o2 != o or (set(fi2) - {ret}) != set(fi):
                    ctx.violate("C07.I8", f"step {step} {op}: node {n} changed {(t, fi, o)} -> {(t2, fi2, o2)}",
                                dict(sig, rule="I8"))
            if ret != op[1]:
                ctx.probe("uid_renamed")
                if ret.rsplit("_", 1)[-1].isdigit() and int(ret.rsplit("_", 1)[-1]) > 10:
                    ctx.probe("uid_chain_beyond_10")
        # I9: exception type for illegal type / name / duplicate / connection
        if exc is not None and not isinstance(exc, ValueError):
            why = classify_illegal(op, before, bbs_before)
            if why:
                ctx.violate("C07.I9", f"step {step} {op}: illegal ({why}) but raised {outcome}: {exc}",
                            dict(sig, rule="I9", why=why))
        if exc is None and classify_illegal(op, before, bbs_before):
            why = classify_illegal(op, before, bbs_before)
            ctx.probe("illegal_call_accepted:" + op[0])
            ctx.violate("C07.I9", f"step {step} {op}: illegal ({why}) but the call was accepted",
                        dict(sig, rule="I9accept", why=why))
        if op[0] == "fill_blackbox" and op[1] in exempt:
            ctx.probe("fill_after_pin_removed")
    ctx.stats["final_nodes"] = len(snap["nodes"])


def sig_key(sig):
    return (sig.get("rule"), sig.get("op"))


def shrink(case):
    ops = case["ops"]
    n = len(ops)
    # ddmin-style chunks
    chunk = n // 2
    while chunk >= 1:
        for i in range(0, n, chunk):
            c = dict(case)
            c["ops"] = ops[:i] + ops[i + chunk:]
            if len(c["ops"]) < n:
                yield c
        chunk //= 2
    if case.get("start"):
        c = dict(case)
        c["start"] = None
        yield c
        for s in G.shrink_net(case["start"]):
            if s is not None and not ref.wiring_violations(s):
                c = dict(case)
                c["start"] = s
                yield c
    # simplify arguments
    for i, op in enumerate(ops):
        for j in range(1, len(op)):
            a = op[j]
            alts = []
            if isinstance(a, list) and len(a) > 1:
                alts += [a[:k] + a[k + 1:] for k in range(len(a))]
            if isinstance(a, list) and len(a) == 1:
                alts.append(a[0])
            if isinstance(a, dict) and a:
                alts += [{k: v for k, v in a.items() if k != kk} for kk in a]
                alts.append(None)
            if a is True and op[0] == "add":
                alts.append(False)
            if op[0] == "add" and j in (3, 4) and a is not None:
                alts.append(None)
            for alt in alts:
                c = dict(case)
                c["ops"] = ops[:i] + [op[:j] + [alt] + op[j + 1:]] + ops[i + 1:]
                yield c


def fingerprint(case, r):
    st = r["stats"]
    if st.get("calls_ok", 0) >= 3 and st.get("calls_rejected", 0) >= 1:
        return fp([case["start"], case["ops"]])
    return None


def sample(case, r):
    return {"start": case["start"], "ops": case["ops"][:12], "n_ops": len(case["ops"]),
            "calls_ok": r["stats"].get("calls_ok"), "calls_rejected": r["stats"].get("calls_rejected")}
