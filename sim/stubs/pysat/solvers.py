"""Stub of pysat.solvers: a complete DPLL solver (two watched literals,
chronological backtracking) whose free choices come from the peer context."""
from cgsim import peers as _peers


class _Solver:
    def __init__(self, bootstrap_with=None, **kwargs):
        c = _peers.ctx()
        if _peers.touch("solver_new"):
            raise RuntimeError("simulated solver failure (constructor)")
        self.clauses = []
        self.nv = 0
        self.model = None
        self.status = None
        self.kwargs = kwargs
        if bootstrap_with is not None:
            cl = getattr(bootstrap_with, "clauses", bootstrap_with)
            for x in cl:
                self.add_clause(x)

    # -- pysat surface -------------------------------------------------------
    def add_clause(self, clause, no_return=True):
        clause = [int(l) for l in clause]
        for l in clause:
            if l == 0:
                raise ValueError("literal 0")
            if abs(l) > self.nv:
                self.nv = abs(l)
        self.clauses.append(clause)

    def append_formula(self, formula, no_return=True):
        for c in getattr(formula, "clauses", formula):
            self.add_clause(c)

    def nof_vars(self):
        return self.nv

    def nof_clauses(self):
        return len(self.clauses)

    def solve(self, assumptions=()):
        ctx = _peers.ctx()
        if _peers.touch("solve"):
            raise RuntimeError("simulated solver failure (solve)")
        ctx.solver_stats["solve_calls"] += 1
        cls = self.clauses + [[int(a)] for a in assumptions]
        model = _dpll_policy(self.nv, cls, ctx)
        self.model = model
        self.status = model is not None
        ctx.solver_stats["sat" if self.status else "unsat"] += 1
        return self.status

    def get_model(self):
        return list(self.model) if self.model is not None else None

    def get_status(self):
        return self.status

    def delete(self):
        self.clauses = []

    def __enter__(self):
        return self

    def __exit__(self, *a):
        self.delete()
        return False


def _dpll_policy(nv, clauses, ctx):
    rng = ctx.rng
    policy = ctx.policy
    # normalise: drop tautologies (remember their variables as "free"), dedupe literals
    free = set()
    norm = []
    for c in clauses:
        s = set(c)
        taut = False
        for l in s:
            if -l in s:
                taut = True
                free.add(abs(l))
        if taut:
            continue
        if not s:
            return None
        norm.append(list(dict.fromkeys(c)))
    vs = list(range(1, nv + 1))
    if policy == "prefer_true":
        order, pol = vs, [1] * (nv + 1)
    elif policy == "prefer_false":
        order, pol = vs, [-1] * (nv + 1)
    else:
        pol = [0] + [rng.choice((1, -1)) for _ in vs]
        perm = vs[:]
        rng.shuffle(perm)
        if policy == "random":
            order = perm
        elif policy == "inputs_last":
            order = [v for v in perm if v not in free] + [v for v in perm if v in free]
        else:  # inputs_first
            order = [v for v in perm if v in free] + [v for v in perm if v not in free]
    res = _dpll(nv, norm, order, pol, 3000)
    if res == "budget":
        ctx.solver_stats["fallback"] += 1
        order2 = [v for v in order if v in free] + [v for v in order if v not in free]
        res = _dpll(nv, norm, order2, pol, None)
    return res


def _dpll(nv, clauses, order, pol, budget):
    assign = [0] * (nv + 1)
    watches = {}
    for v in range(1, nv + 1):
        watches[v] = []
        watches[-v] = []
    cls = [list(c) for c in clauses]
    trail = []
    for ci, c in enumerate(cls):
        if len(c) == 1:
            l = c[0]
            v = abs(l)
            val = 1 if l > 0 else -1
            if assign[v] == 0:
                assign[v] = val
                trail.append(l)
            elif assign[v] != val:
                return None
        else:
            watches[c[0]].append(ci)
            watches[c[1]].append(ci)

    def propagate(qhead):
        while qhead < len(trail):
            lit = trail[qhead]
            qhead += 1
            neg = -lit
            wl = watches[neg]
            new_wl = []
            n = len(wl)
            idx = 0
            while idx < n:
                ci = wl[idx]
                idx += 1
                c = cls[ci]
                if c[0] == neg:
                    c[0], c[1] = c[1], c[0]
                a = c[0]
                va = assign[abs(a)]
                if (va == 1 and a > 0) or (va == -1 and a < 0):
                    new_wl.append(ci)
                    continue
                found = False
                for k in range(2, len(c)):
                    b = c[k]
                    vb = assign[abs(b)]
                    if vb == 0 or (vb == 1 and b > 0) or (vb == -1 and b < 0):
                        c[1], c[k] = b, neg
                        watches[b].append(ci)
                        found = True
                        break
                if found:
                    continue
                new_wl.append(ci)
                if va != 0:  # a is false -> conflict
                    new_wl.extend(wl[idx:])
                    watches[neg] = new_wl
                    return -1
                assign[abs(a)] = 1 if a > 0 else -1
                trail.append(a)
            watches[neg] = new_wl
        return qhead

    qhead = propagate(0)
    if qhead == -1:
        return None
    levels = []  # (trail_len_before_decision, order_pos, lit, flipped)
    pos = 0
    conflicts = 0
    n_order = len(order)
    while True:
        while pos < n_order and assign[order[pos]] != 0:
            pos += 1
        if pos >= n_order:
            return _model(assign, pol, nv)
        v = order[pos]
        lit = v if pol[v] == 1 else -v
        levels.append((len(trail), pos, lit, False))
        assign[v] = 1 if lit > 0 else -1
        trail.append(lit)
        q = propagate(len(trail) - 1)
        while q == -1:
            conflicts += 1
            if budget is not None and conflicts > budget:
                return "budget"
            # backtrack to the last unflipped decision
            while levels and levels[-1][3]:
                tl, p, l, _ = levels.pop()
                while len(trail) > tl:
                    assign[abs(trail.pop())] = 0
            if not levels:
                return None
            tl, p, l, _ = levels.pop()
            while len(trail) > tl:
                assign[abs(trail.pop())] = 0
            nl = -l
            levels.append((tl, p, nl, True))
            pos = p
            assign[abs(nl)] = 1 if nl > 0 else -1
            trail.append(nl)
            q = propagate(len(trail) - 1)


def _model(assign, pol, nv):
    out = []
    for v in range(1, nv + 1):
        a = assign[v]
        if a == 0:
            a = pol[v] if pol[v] != 0 else 1
        out.append(v if a == 1 else -v)
    return out


_NAMES = ("Cadical153", "Cadical", "Cadical103", "Glucose3", "Glucose4", "Minisat22", "Solver")


def __getattr__(name):
    if name in _NAMES:
        if name == "Cadical153" and _peers.touch("import_solvers"):
            raise AttributeError(name)
        if name == "Cadical" and _peers.ctx().fired.get("import_solvers"):
            # package absent: the fallback import fails as well
            raise AttributeError(name)
        return _Solver
    raise AttributeError(name)
