"""Stub of pysat.solvers: a complete DPLL solver (two watched literals,
chronological backtracking) whose free choices come from the peer context."""
from cgsim import peers as _peers


class _Solver:
    def __init__(self, bootstrap_with=None, **kwargs):
        c = _peers.ctx()
        if _peers.touch("solver_new"):
            raise RuntimeError("simulated solver failure (constructor)")
        self.clauses = []
        self._norm = []
        self._free = set()
        self._empty = False
        self.nv = 0
        self.model = None
        self.status = None
        self.kwargs = kwargs
        if bootstrap_with is not None:
            cl = getattr(bootstrap_with, "clauses", bootstrap_with)
            for x in cl:
                self.add_clause(x)

    # -- pysat surface -------------------------------------------------------
    def add_clause(self, clause, no_return=True):
        clause = [int(l) for l in clause]
        for l in clause:
            if l == 0:
                raise ValueError("literal 0")
            if abs(l) > self.nv:
                self.nv = abs(l)
        self.clauses.append(clause)
        self._add_norm(clause)

    def _add_norm(self, clause):
        st = set(clause)
        for l in st:
            if -l in st:
                self._free.update(abs(x) for x in st if -x in st)
                return
        if not st:
            self._empty = True
            return
        self._norm.append(list(dict.fromkeys(clause)))

    def append_formula(self, formula, no_return=True):
        for c in getattr(formula, "clauses", formula):
            self.add_clause(c)

    def nof_vars(self):
        return self.nv

    def nof_clauses(self):
        return len(self.clauses)

    def solve(self, assumptions=()):
        ctx = _peers.ctx()
        if _peers.touch("solve"):
            raise RuntimeError("simulated solver failure (solve)")
        ctx.solver_stats["solve_calls"] += 1
        if self._empty:
            model = None
        else:
            model = _dpll_policy(self.nv, self._norm + [[int(a)] for a in assumptions], self._free, ctx)
        self.model = model
        self.status = model is not None
        ctx.solver_stats["sat" if self.status else "unsat"] += 1
        return self.status

    def get_model(self):
        return list(self.model) if self.model is not None else None

    def get_status(self):
        return self.status

    def delete(self):
        self.clauses = []

    def __enter__(self):
        return self

    def __exit__(self, *a):
        self.delete()
        return False


def _dpll_policy(nv, norm, free, ctx):
    rng = ctx.rng
    policy = ctx.policy
    vs = list(range(1, nv + 1))
    if policy == "prefer_true":
        order, pol = vs, [1] * (nv + 1)
    elif policy == "prefer_false":
        order, pol = vs, [-1] * (nv + 1)
    else:
        pol = [0] + [rng.choice((1, -1)) for _ in vs]
        perm = vs[:]
        rng.shuffle(perm)
        if policy == "random":
            order = perm
        elif policy == "inputs_last":
            order = [v for v in perm if v not in free] + [v for v in perm if v in free]
        else:  # inputs_first
            order = [v for v in perm if v in free] + [v for v in perm if v not in free]
    res = _dpll(nv, norm, order, pol, 40)
    if res == "budget":
        ctx.solver_stats["fallback"] += 1
        order2 = [v for v in order if v in free] + [v for v in order if v not in free]
        res = _dpll(nv, norm, order2, pol, None)
    return res


def _dpll(nv, clauses, order, pol, budget):
    # val is indexed by literal (negative indices address the upper half): 1 true, -1 false, 0 free
    val = [0] * (2 * nv + 2)
    watches = [[] for _ in range(2 * nv + 2)]
    cls = clauses   # literal order inside a clause is permuted by the watch scheme; harmless
    trail = []
    for ci, c in enumerate(cls):
        if len(c) == 1:
            l = c[0]
            if val[l] == 0:
                val[l] = 1
                val[-l] = -1
                trail.append(l)
            elif val[l] == -1:
                return None
        else:
            watches[c[0]].append(ci)
            watches[c[1]].append(ci)

    def propagate(qhead):
        while qhead < len(trail):
            neg = -trail[qhead]
            qhead += 1
            wl = watches[neg]
            new_wl = []
            n = len(wl)
            idx = 0
            while idx < n:
                ci = wl[idx]
                idx += 1
                c = cls[ci]
                if c[0] == neg:
                    c[0] = c[1]
                    c[1] = neg
                a = c[0]
                va = val[a]
                if va == 1:
                    new_wl.append(ci)
                    continue
                found = False
                for k in range(2, len(c)):
                    b = c[k]
                    if val[b] != -1:
                        c[1] = b
                        c[k] = neg
                        watches[b].append(ci)
                        found = True
                        break
                if found:
                    continue
                new_wl.append(ci)
                if va == -1:  # conflict
                    new_wl.extend(wl[idx:])
                    watches[neg] = new_wl
                    return -1
                val[a] = 1
                val[-a] = -1
                trail.append(a)
            watches[neg] = new_wl
        return qhead

    qhead = propagate(0)
    if qhead == -1:
        return None
    levels = []  # (trail_len_before_decision, order_pos, lit, flipped)
    pos = 0
    conflicts = 0
    n_order = len(order)
    while True:
        while pos < n_order and val[order[pos]] != 0:
            pos += 1
        if pos >= n_order:
            return _model(val, pol, nv)
        v = order[pos]
        lit = v if pol[v] == 1 else -v
        levels.append((len(trail), pos, lit, False))
        val[lit] = 1
        val[-lit] = -1
        trail.append(lit)
        q = propagate(len(trail) - 1)
        while q == -1:
            conflicts += 1
            if budget is not None and conflicts > budget:
                return "budget"
            while levels and levels[-1][3]:
                tl, p, l, _ = levels.pop()
                while len(trail) > tl:
                    x = trail.pop()
                    val[x] = 0
                    val[-x] = 0
            if not levels:
                return None
            tl, p, l, _ = levels.pop()
            while len(trail) > tl:
                x = trail.pop()
                val[x] = 0
                val[-x] = 0
            nl = -l
            levels.append((tl, p, nl, True))
            pos = p
            val[nl] = 1
            val[-nl] = -1
            trail.append(nl)
            q = propagate(len(trail) - 1)


def _model(assign, pol, nv):
    out = []
    for v in range(1, nv + 1):
        a = assign[v]
        if a == 0:
            a = pol[v] if pol[v] != 0 else 1
        out.append(v if a == 1 else -v)
    return out


_NAMES = ("Cadical153", "Cadical", "Cadical103", "Glucose3", "Glucose4", "Minisat22", "Solver")


def __getattr__(name):
    if name in _NAMES:
        if name == "Cadical153" and _peers.touch("import_solvers"):
            raise AttributeError(name)
        if name == "Cadical" and _peers.ctx().fired.get("import_solvers"):
            # package absent: the fallback import fails as well
            raise AttributeError(name)
        return _Solver
    raise AttributeError(name)
