"""Stub of pysat.formula: IDPool and CNF, behaviour-faithful for the used surface."""
from cgsim import peers as _peers


class _IDPool:
    def __init__(self, start_from=1, occupied=None):
        self.top = start_from - 1
        self.obj2id = {}
        self.id2obj = {}

    def id(self, obj=None):
        if obj is None:
            self.top += 1
            return self.top
        try:
            return self.obj2id[obj]
        except KeyError:
            self.top += 1
            self.obj2id[obj] = self.top
            self.id2obj[self.top] = obj
            return self.top

    def obj(self, vid):
        return self.id2obj.get(vid)


class _CNF:
    def __init__(self, from_clauses=None):
        self.nv = 0
        self.clauses = []
        if from_clauses:
            for c in from_clauses:
                self.append(c)

    def append(self, clause):
        clause = list(clause)
        for lit in clause:
            if abs(lit) > self.nv:
                self.nv = abs(lit)
        self.clauses.append(clause)

    def extend(self, clauses):
        for c in clauses:
            self.append(c)

    def __iter__(self):
        return iter(self.clauses)

    def __len__(self):
        return len(self.clauses)

    def copy(self):
        c = _CNF()
        c.nv = self.nv
        c.clauses = [list(x) for x in self.clauses]
        return c


def __getattr__(name):
    # `from pysat.formula import CNF, IDPool` inside a library function lands here on
    # every call; an injected fault makes the package look absent (ImportError), which is
    # the native condition of this sandbox.
    if name in ("IDPool", "CNF"):
        if name == "IDPool" and _peers.touch("import_formula"):
            raise AttributeError(name)
        return {"IDPool": _IDPool, "CNF": _CNF}[name]
    raise AttributeError(name)
