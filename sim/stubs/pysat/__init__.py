"""In-process stand-in for the `python-sat` package (NOT the real one).

circuitgraph imports `pysat` lazily inside its functions, so putting this
directory on sys.path gives the simulator ownership of the solver peer.
Only the surface circuitgraph uses is provided.  All free choices of the
solver (decision order, polarity, which model is returned) are drawn from the
peer context installed by the simulator (cgsim.peers).
"""
__version__ = "cgsim-stub"
